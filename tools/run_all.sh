#!/bin/sh
# tools/run_all.sh [tier] [seed] ["01 02 ..."]  - run every (or the listed) registered check once, print rc and wall time
TIER=${1:-quick}; SEED=${2:-0}; IDS=${3:-01 02 03 04 05 06 07 08 09 10 11 12 13 14 15 16 17 18 19}
cd "$(dirname "$0")/.."
for i in $IDS; do
  s=$(date +%s.%N)
  out=$(VERIF_SEED=$SEED ./check C$i --tier $TIER 2>&1); rc=$?
  e=$(date +%s.%N)
  printf "C%s rc=%s %6.1fs  %s\n" $i $rc $(echo "$e - $s" | bc) "$(echo "$out" | grep -E '^(OK|VIOLATION|HARNESS|KNOWN)' | head -2 | cut -c1-110 | tr '\n' ' ')"
done
