import asyncio, logging
from vloop import *
import pyairtouch.comms.socket as S
import pyairtouch.at4.comms.registry as R4
import pyairtouch.at4.comms.x2C_ac_ctrl as ac
import pyairtouch.at4.comms.x2A_group_ctrl as gc
logging.basicConfig(level=logging.CRITICAL)
loop = mk()
loop.net.script.extend([("refuse",0.0)])
s = S.AirTouchSocket(loop, "h", 9004, R4.INSTANCE)
def run(coro):
    t = loop.create_task(coro); loop.settle(); return t
run(s.open_socket())
msgs = [gc.GroupControlMessage(i, gc.GroupPowerControl.TURN_ON, gc.GroupControlMethod.UNCHANGED, None) for i in range(3)]
for m in msgs:
    t = run(s.send(m, S.RETRY_IDEMPOTENT)); print("send done", t.done(), t.exception() if t.done() else None)
print([ (e.message.group_number) for e in s._message_queue])
while loop.advance_to_next_timer():
    loop.settle()
    if loop.time()>10: break
for e in loop.net.log: print(e)
