import asyncio, logging, warnings, time
from vloop import *
import pyairtouch, pyairtouch.api as api
import pyairtouch.comms.socket as S
import pyairtouch.at5.comms.registry as R5
from pyairtouch.at5.comms import hdr as H5, x1F_ext as X, xC0_ctrl_status as C0, x1FFF30_console_ver as CV, x1FFF13_zone_names as ZN, x1FFF11_ac_ability as AB, xC023_ac_status as AS, xC033_ac_timer_status as TS, xC021_zone_status as ZS, xC022_ac_ctrl as AC
logging.basicConfig(level=logging.CRITICAL)
warnings.simplefilter("ignore")
reg = R5.INSTANCE
def frame(msg, to=0xB0, frm=0x80, pid=1):
    enc = reg.get_encoder(msg.message_id)
    h = H5.At5Header(to, frm, pid, msg.message_id, enc.size(msg))
    body = enc.encode(h, msg)
    h = H5.At5Header(to, frm, pid, msg.message_id, len(body))
    eh = reg.header_encoder.encode(h)
    return eh.header_bytes + body + reg.checksum_calculator.calculate(eh.checksum_data + body)
def parse(buf):
    out=[]
    hd = reg.header_decoder
    while buf:
        r = hd.decode(buf[:hd.header_length]); h=r.header
        body = buf[hd.header_length:hd.header_length+h.message_length]
        m = reg.get_decoder(h.message_id).decode(body,h).message
        out.append(m); buf = buf[hd.header_length+h.message_length+2:]
    return out
modes={m:True for m in AC.AcModeControl}; fans={f:True for f in AC.AcFanSpeedControl}
def answer(m):
    if isinstance(m, X.ExtendedMessage):
        s=m.sub_message
        if isinstance(s, CV.ConsoleVersionRequest): return X.ExtendedMessage(CV.ConsoleVersionMessage(False,["1.0.3"]))
        if isinstance(s, ZN.ZoneNamesRequest): return X.ExtendedMessage(ZN.ZoneNamesMessage({0:"A",1:"B"}))
        if isinstance(s, AB.AcAbilityRequest): return X.ExtendedMessage(AB.AcAbilityMessage([AB.AcAbility(0,"AC",0,2,modes,fans,16,30,18,31)]))
    if isinstance(m, C0.ControlStatusMessage):
        s=m.sub_message
        if isinstance(s, AS.AcStatusRequest): return C0.ControlStatusMessage(AS.AcStatusMessage([AS.AcStatusData(0,AS.AcPowerState.ON,AS.AcMode.COOL,AS.AcFanSpeed.INTELLIGENT_AUTO_TURBO,False,False,False,False,22.0,23.0,0)]))
        if isinstance(s, TS.AcTimerStatusRequest): return C0.ControlStatusMessage(TS.AcTimerStatusMessage([TS.AcTimerStatusData(0,TS.AcTimerState(True,0,0),TS.AcTimerState(True,0,0))]))
        if isinstance(s, ZS.ZoneStatusRequest): return C0.ControlStatusMessage(ZS.ZoneStatusMessage([ZS.ZoneStatusData(z,ZS.ZonePowerState.ON,False,ZS.ZoneControlMethod.DAMPER,False,ZS.SensorBatteryStatus.NORMAL,None,50,None) for z in (0,1)]))
t0=time.time()
N=50
for it in range(N):
    loop = mk()
    at = pyairtouch.connect(api.AirTouchModel.AIRTOUCH_5, "h", 9005)
    task = loop.create_task(at.init())
    seen = 0
    for _ in range(200):
        loop.settle()
        if task.done(): break
        conns = loop.net.conns
        progressed=False
        if conns:
            t=conns[-1]
            if len(t.written)>seen:
                reqs=parse(bytes(t.written[seen:])); seen=len(t.written)
                for r in reqs:
                    a=answer(r)
                    if a: t.peer_send(frame(a)); progressed=True
        if not progressed and not loop._ready:
            if not loop.advance_to_next_timer(): break
print("per init ms", (time.time()-t0)/N*1000)
print(task.result(), loop.time(), at.air_conditioners[0].active_fan_speed, at.air_conditioners[0].selected_fan_speed, [z.name for z in at.air_conditioners[0].zones])
# heartbeat: advance time w/o answering
log0=len(loop.net.log)
for _ in range(50):
    loop.settle()
    if not loop.advance_to_next_timer(): break
    if loop.time()>1500: break
for e in loop.net.log[log0:]: print(e[:2], e[-1] if e[0]!='write' else (e[2].hex()[:40], e[3]))
print("timers", loop.pending_timers()[:5], "now", loop.time())
