import asyncio, logging, warnings
from vloop import *
import pyairtouch.comms.socket as S
import pyairtouch.at4.comms.registry as R4
import pyairtouch.at4.comms.x2A_group_ctrl as gc
logging.basicConfig(level=logging.CRITICAL); warnings.simplefilter("ignore")
def run(loop, coro):
    t = loop.create_task(coro); loop.settle(); return t
loop = mk(); loop.net.script.extend([("refuse",0.0)])
s = S.AirTouchSocket(loop, "h", 9004, R4.INSTANCE)
got=[]
async def sub(h,m): got.append(m)
s.subscribe_on_message_received(sub)
run(loop, s.open_socket())
bad = gc.GroupControlMessage(1, gc.GroupPowerControl.UNCHANGED, gc.GroupControlMethod.TEMPERATURE, gc.GroupSetPointControl(1000))
t = run(loop, s.send(bad, S.RETRY_IDEMPOTENT)); print("send", t.done(), t.exception())
while loop.advance_to_next_timer():
    loop.settle()
    if loop.time()>10: break
for e in loop.net.log: print(e)
print("connected", s.is_connected, "bg tasks", len(s._background_tasks))
c = loop.net.conns[-1]
c.peer_send(bytes.fromhex("5555b080012b0000") + R4.INSTANCE.checksum_calculator.calculate(bytes.fromhex("b080012b0000"))); loop.settle()
print("delivered", got, "exc", loop.exc_reports)
