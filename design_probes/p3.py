import asyncio, logging, warnings
from vloop import *
import pyairtouch.comms.socket as S
import pyairtouch.at4.comms.registry as R4
import pyairtouch.at4.comms.x2A_group_ctrl as gc
import pyairtouch.at4.comms.x2B_group_status as gs
logging.basicConfig(level=logging.CRITICAL)
warnings.simplefilter("always")
def run(loop, coro):
    t = loop.create_task(coro); loop.settle(); return t
def drain_time(loop, until):
    while True:
        ts = loop.pending_timers()
        if not ts or ts[0] > until: break
        loop.advance_to_next_timer(); loop.settle()
    loop._vtime = until

print("== A: close during back-off")
loop = mk(); loop.net.script.extend([("refuse",0.0)])
s = S.AirTouchSocket(loop, "h", 9004, R4.INSTANCE)
run(loop, s.open_socket()); run(loop, s.close())
drain_time(loop, 10.0)
for e in loop.net.log: print(e)
print("is_open", s.is_open, "is_connected", s.is_connected, "bg", len(s._background_tasks))

print("== B: write error + read error same time")
loop = mk()
s = S.AirTouchSocket(loop, "h", 9004, R4.INSTANCE)
run(loop, s.open_socket())
t0 = loop.net.conns[0]; t0.fail_write_at = 1
m = gc.GroupControlMessage(1, gc.GroupPowerControl.TURN_ON, gc.GroupControlMethod.UNCHANGED, None)
run(loop, s.send(m, S.RETRY_IDEMPOTENT))
drain_time(loop, 10.0)
for e in loop.net.log: print(e)
print("open conns", [t.cid for t in loop.net.open_conns()], "bg", len(s._background_tasks), loop.exc_reports)

print("== C: read frames, segmentation")
loop = mk()
s = S.AirTouchSocket(loop, "h", 9004, R4.INSTANCE)
got=[]
async def sub(h, m): got.append((h, m))
s.subscribe_on_message_received(sub)
run(loop, s.open_socket())
frame = bytes.fromhex("5555b080012b000c406400 00ff00 41e41a806180 6579".replace(' ',''))
t0 = loop.net.conns[0]
for b in frame:
    t0.peer_send(bytes([b])); loop.settle()
print(got)
t0.peer_eof(); loop.settle(); drain_time(loop, 5.0)
for e in loop.net.log: print(e)
