"""H2 on the stock selector loop over real loopback TCP (no simulation)."""
import asyncio, logging, socket, struct, warnings
import pyairtouch.comms.socket as S
import pyairtouch.at4.comms.registry as R4
import pyairtouch.at4.comms.x2A_group_ctrl as gc
logging.basicConfig(level=logging.CRITICAL); warnings.simplefilter("always")
conns=[]
async def main():
    accepted=asyncio.Event()
    async def handler(r,w):
        conns.append(w); accepted.set()
    srv=await asyncio.start_server(handler,"127.0.0.1",0); port=srv.sockets[0].getsockname()[1]
    s=S.AirTouchSocket(asyncio.get_running_loop(),"127.0.0.1",port,R4.INSTANCE)
    await s.open_socket(); await accepted.wait(); await asyncio.sleep(0.05)
    # server resets (RST) the first connection
    w=conns[0]; sock=w.get_extra_info("socket")
    sock.setsockopt(socket.SOL_SOCKET, socket.SO_LINGER, struct.pack("ii",1,0)); w.transport.abort()
    await asyncio.sleep(0)   # RST in flight; client has not yet noticed
    m=gc.GroupControlMessage(1,gc.GroupPowerControl.TURN_ON,gc.GroupControlMethod.UNCHANGED,None)
    await s.send(m,S.RETRY_IDEMPOTENT)
    await asyncio.sleep(0.3)
    print("server saw", len(conns), "connections; still open at server side:", sum(1 for c in conns[1:] if not c.transport.is_closing()))
    await s.close(); srv.close()
asyncio.run(main())
