import asyncio, types, logging
from vloop import *
import pyairtouch.comms.discovery as D
import pyairtouch.factory as F
import pyairtouch.at4.comms.discovery as d4, pyairtouch.at5.comms.discovery as d5
logging.basicConfig(level=logging.CRITICAL)
class FakeSock:
    def __init__(self, *a, **k): self.bound=None; self.opts=[]
    def setsockopt(self,*a): self.opts.append(a)
    def bind(self, addr): self.bound=addr
    def close(self): pass
import socket as real
fake = types.SimpleNamespace(socket=FakeSock, AF_INET=real.AF_INET, SOCK_DGRAM=real.SOCK_DGRAM, IPPROTO_UDP=real.IPPROTO_UDP, SOL_SOCKET=real.SOL_SOCKET, SO_BROADCAST=real.SO_BROADCAST)
D.socket = fake
class DT(asyncio.DatagramTransport):
    def __init__(self, loop, proto, sock, log): super().__init__(); self.loop=loop; self.proto=proto; self.sock=sock; self.log=log; self.closed=False
    def sendto(self, data, addr=None): self.log.append(("sendto", self.sock.bound, bytes(data), addr, self.loop.time()))
    def close(self): self.closed=True; self.log.append(("dclose", self.sock.bound, self.loop.time()))
    def deliver(self, data, addr):
        if not self.closed: self.loop.call_soon(self.proto.datagram_received, data, addr)
class L(VLoop):
    async def create_datagram_endpoint(self, protocol_factory, local_addr=None, remote_addr=None, *, sock=None, **kw):
        p = protocol_factory(); t = DT(self, p, sock, self.net.log); self.net.dg.append(t); p.connection_made(t); return t, p
loop = L(); loop.net = Net(); loop.net.dg=[]; events._set_running_loop(loop)
task = loop.create_task(F.discover())
loop.settle()
# deliver an AT5 response at t=0.2 and invalid utf8
loop._vtime = 0.2
for t in loop.net.dg:
    t.deliver(b"192.168.1.5,SER123,AirTouch5,ID77,My, Name", ("192.168.1.5", 49005))
    t.deliver(b"\xff\xfe,AirTouch4,x", ("1.2.3.4", 49004))
loop.settle()
while not task.done():
    if not loop.advance_to_next_timer(): break
    loop.settle()
for e in loop.net.log: print(e)
r = task.result()
print([(a.model, a.host, a.name, a.airtouch_id, a.serial, a._socket.port) for a in r], loop.time())
print(loop.exc_reports)
