import sys, time, logging, warnings, gc, hashlib, collections, itertools
from mc import *
import pyairtouch.comms.socket as S
import pyairtouch.at4.comms.registry as R4
import pyairtouch.at4.comms.x2A_group_ctrl as gc_
import pyairtouch.at4.comms.x2B_group_status as gs
logging.disable(logging.CRITICAL); warnings.simplefilter("ignore")
CRC=R4.INSTANCE.checksum_calculator
def fr(body_hex):
    b=bytes.fromhex(body_hex); return b"\x55\x55"+b+CRC.calculate(b)
PROBE=fr("b080012b0000")
BADCRC=PROBE[:-1]+bytes([PROBE[-1]^1])
GARBAGE=b"\x00\x01\x02\x03\x04\x05\x06\x07\x08\x09"
TRUNC=PROBE[:5]
OKMSG=lambda i: gc_.GroupControlMessage(i, gc_.GroupPowerControl.TURN_ON, gc_.GroupControlMethod.UNCHANGED, None)
BADMSG=gc_.GroupControlMessage(1, gc_.GroupPowerControl.UNCHANGED, gc_.GroupControlMethod.TEMPERATURE, gc_.GroupSetPointControl(1000))

class Exec:
    def __init__(self):
        R4.INSTANCE.header_factory=type(R4.INSTANCE.header_factory)()
        self.loop=VLoop(); events._set_running_loop(self.loop); self.net=Net(self.loop); self.loop.net=self.net
        self.s=S.AirTouchSocket(self.loop,"h",9004,R4.INSTANCE)
        self.got=[]; self.nsend=0; self.viol=None; self.events=0; self.devs=0; self.maxopen=0
        async def sub(h,m): self.got.append(type(m).__name__)
        self.s.subscribe_on_message_received(sub)
        self.loop.create_task(self.s.open_socket())
    def enabled(self, depth_left):
        a=[]
        if self.loop.has_ready(): a.append("run")
        if depth_left>0:
            if self.net.pending: a+=["accept","refuse"]
            live=self.net.live()
            if live:
                a+=["eof","reset","garbage","badcrc","trunc","probe"]
                if not live[-1].fail_next: a.append("failw")
            if self.nsend<2: a+=["send","sendbad"]
        if not self.loop.has_ready() and self.loop.next_deadline() is not None: a.append("tick")
        return a
    def do(self, act):
        L=self.loop
        if act=="run": L.turn(); return
        if act=="tick": L._vtime=max(L._vtime,L.next_deadline()); L.turn(); return
        self.events+=1
        if act in("accept","refuse"):
            fut,_=self.net.pending.pop(0); fut.set_result(act=="accept")
        elif act=="eof": self.net.live()[-1].peer_eof()
        elif act=="reset": self.net.live()[-1].peer_reset()
        elif act=="garbage": self.net.live()[-1].peer_send(GARBAGE)
        elif act=="badcrc": self.net.live()[-1].peer_send(BADCRC)
        elif act=="trunc": t=self.net.live()[-1]; t.peer_send(TRUNC); t.peer_eof()
        elif act=="probe": self.net.live()[-1].peer_send(PROBE)
        elif act=="failw": self.net.live()[-1].fail_next=True
        elif act=="send": self.nsend+=1; L.create_task(self._send(OKMSG(self.nsend)))
        elif act=="sendbad": self.nsend+=1; L.create_task(self._send(BADMSG))
    async def _send(self, m):
        try: await self.s.send(m, S.RETRY_IDEMPOTENT)
        except Exception as e: pass
    def check_step(self):
        n=len(self.net.unlost())
        if n>1 and not self.viol: self.viol="two-open"
    def fingerprint(self):
        cn=Canon(self.loop.time()); s=self.s
        q=tuple((repr(e.message), e.retries_remaining, round(e.expiry-self.loop.time(),6)) for e in s._message_queue)
        parts=[s.is_open,s.is_connected,q, cn.c(s._reader), s._writer is not None, len(s._background_tasks),
               tuple((t._closing,t.lost,t.fail_next,t.closed_by) for t in self.net.conns if not t.lost), len(self.net.pending), self.nsend, bool(self.viol)]
        parts.append(tuple(cn.c(h) for h in self.loop._ready if not h._cancelled))
        parts.append(tuple(sorted(repr(cn.c(h)) for h in self.loop._scheduled if not h._cancelled)))
        parts.append(tuple(sorted(repr(cn.c(t)) for t in asyncio.all_tasks(self.loop))))
        return hashlib.blake2b(repr(parts).encode(),digest_size=12).hexdigest()
    def finish(self):
        # network behaves: accept everything, 10s horizon, then probe
        L=self.loop; horizon=L.time()+10.0
        for t in self.net.conns: t.fail_next=False
        for _ in range(2000):
            while self.net.pending: self.net.pending.pop(0)[0].set_result(True); L.turn(); self.check_step()
            if L.has_ready(): L.turn(); self.check_step(); continue
            nd=L.next_deadline()
            if nd is None or nd>horizon: break
            L._vtime=nd
        live=self.net.live()
        if len(self.net.unlost())!=1 or not self.s.is_connected: return self.viol or "not-single-connected"
        g0=len(self.got); live[-1].peer_send(PROBE)
        for _ in range(50):
            if not L.has_ready(): break
            L.turn()
        if len(self.got)==g0: return self.viol or "deaf"
        w0=len(self.net.log); L.create_task(self._send(OKMSG(9)))
        for _ in range(50):
            if not L.has_ready(): break
            L.turn()
        if not any(e[1]=="write" for e in self.net.log[w0:]): return self.viol or "mute"
        gcs=[t for t in self.net.conns if t.closed_by=="gc"]
        if gcs: return self.viol or "closed-by-gc"
        gc.collect()
        if L.exc_reports: return self.viol or "loop-exc"
        return self.viol

def replay(choices):
    e=Exec()
    for c in choices:
        e.do(c); e.check_step()
    return e

def explore(depth, maxdev):
    t0=time.time(); seen={}; frontier=[((),0,0)]; execs=0; viols=collections.Counter(); examples={}; states=0; trans=0
    outcomes=collections.Counter()
    while frontier:
        nxt=[]
        for path,ev,dv in frontier:
            e=replay(path); execs+=1
            acts=e.enabled(depth-ev)
            for a in acts:
                ndv=dv
                if a not in("run","tick") and "run" in acts:
                    ndv+=1
                    if ndv>maxdev: continue
                e2=replay(path+(a,)); execs+=1; trans+=1
                nev=ev+(0 if a in("run","tick") else 1)
                fpv=e2.fingerprint()
                key=fpv
                prev=seen.get(key)
                if prev is not None and prev[0]<=ndv and prev[1]<=nev: continue
                seen[key]=(ndv,nev); states+=1
                # terminal check: whenever quiescent -> run finish on a copy (replay again)
                if not e2.loop.has_ready():
                    e3=replay(path+(a,)); execs+=1
                    v=e3.finish(); outcomes[v]+=1
                    if v:
                        viols[v]+=1
                        if v not in examples or len(path)+1<len(examples[v]): examples[v]=path+(a,)
                nxt.append((path+(a,),nev,ndv))
        frontier=nxt
        print(f"  level done: frontier={len(frontier)} states={states} execs={execs} t={time.time()-t0:.1f}s", flush=True)
        if time.time()-t0>float(sys.argv[3]) : print("CAP"); break
    print("depth",depth,"dev",maxdev,"states",states,"transitions",trans,"execs",execs,"time",round(time.time()-t0,1))
    print("outcomes",dict(outcomes))
    for k,v in examples.items(): print(k, [x for x in v if x!="run"], len(v))
explore(int(sys.argv[1]), int(sys.argv[2]))
