import asyncio, enum, dataclasses, types, collections, hashlib, weakref, inspect
from asyncio import futures, tasks, events

def coro_chain(coro):
    out=[]
    seen=0
    while coro is not None and seen<50:
        seen+=1
        if inspect.iscoroutine(coro):
            fr=coro.cr_frame
            out.append((coro.cr_code.co_qualname, fr.f_lasti if fr else -1))
            coro=coro.cr_await
        elif inspect.isgenerator(coro):
            fr=coro.gi_frame
            out.append((coro.gi_code.co_qualname, fr.f_lasti if fr else -1))
            coro=coro.gi_yieldfrom
        elif inspect.isasyncgen(coro):
            out.append(("asyncgen",)); break
        else:
            out.append(("await", type(coro).__name__, getattr(coro,'_state',None)))
            break
    return tuple(out)

class Canon:
    def __init__(self, now):
        self.now=now; self.ids={}
    def ref(self,o):
        k=id(o)
        if k in self.ids: return ("ref", self.ids[k])
        self.ids[k]=len(self.ids); return None
    def c(self,o,depth=0):
        if o is None or isinstance(o,(bool,int,str,bytes)): return o
        if isinstance(o,float): return ("f", round(o-self.now,6)) if abs(o)>=0 and getattr(self,'_time_ctx',False) else o
        if isinstance(o,enum.Enum): return ("E",type(o).__name__,o.name)
        if isinstance(o,(bytearray,memoryview)): return bytes(o)
        if depth>12: return ("deep",type(o).__name__)
        r=self.ref(o)
        if r: return r
        if isinstance(o,asyncio.Task):
            return ("Task", o.done(), self.chain(o.get_coro(),depth) if not o.done() else None, bool(o._must_cancel))
        if isinstance(o,asyncio.Future): return ("Fut", o._state)
        if isinstance(o,(asyncio.Handle,)):
            cb=o._callback; tag=getattr(cb,'__qualname__',type(cb).__name__)
            owner=getattr(cb,'__self__',None)
            when=getattr(o,'_when',None)
            return ("H", tag, type(owner).__name__ if owner is not None else None, None if when is None else round(when-self.now,6), o._cancelled)
        if isinstance(o,(list,tuple,collections.deque)): return (type(o).__name__,)+tuple(self.c(x,depth+1) for x in o)
        if isinstance(o,(set,frozenset)): return ("set",)+tuple(sorted((repr(self.c(x,depth+1)) for x in o)))
        if isinstance(o,dict): return ("dict",)+tuple(sorted(((repr(self.c(k,depth+1)),self.c(v,depth+1)) for k,v in o.items()), key=lambda kv: kv[0]))
        if isinstance(o,(types.FunctionType,types.MethodType,types.BuiltinFunctionType)):
            return ("fn", getattr(o,'__qualname__','?'), type(getattr(o,'__self__',None)).__name__)
        if isinstance(o,(asyncio.AbstractEventLoop, type, types.ModuleType, weakref.ref)): return ("opaque",type(o).__name__)
        if isinstance(o,asyncio.Event): return ("Event", o.is_set(), len(o._waiters))
        d=getattr(o,'__dict__',None)
        if d is not None:
            return (type(o).__name__,)+tuple((k,self.c(v,depth+1)) for k,v in sorted(d.items()))
        return ("obj",type(o).__name__)

def _chain(self, coro, depth):
    out=[]; n=0
    while coro is not None and n<50:
        n+=1
        if inspect.iscoroutine(coro): fr=coro.cr_frame; code=coro.cr_code; nxt=coro.cr_await
        elif inspect.isgenerator(coro): fr=coro.gi_frame; code=coro.gi_code; nxt=coro.gi_yieldfrom
        else:
            out.append(("await", self.c(coro, depth+1))); break
        loc=tuple(sorted((k, repr(self.c(v, depth+2))) for k,v in (fr.f_locals.items() if fr else ()) if k!='self'))
        out.append((code.co_qualname, fr.f_lasti if fr else -1, loc)); coro=nxt
    return tuple(out)
Canon.chain=_chain

def fingerprint(loop, roots):
    cn=Canon(loop.time())
    parts=[cn.c(r) for r in roots]
    parts.append(("ready",tuple(cn.c(h) for h in loop._ready)))
    parts.append(("sched",tuple(sorted(repr(cn.c(h)) for h in loop._scheduled if not h._cancelled))))
    parts.append(("tasks",tuple(sorted(repr(cn.c(t)) for t in asyncio.all_tasks(loop)))))
    return hashlib.blake2b(repr(parts).encode(),digest_size=12).hexdigest(), parts
