"""Scratch prototype of the explorer (calibration only)."""
import asyncio, heapq, collections, logging, warnings, time, sys, gc, inspect, hashlib
from asyncio import events, base_events, transports
from fp import Canon, coro_chain

class VLoop(base_events.BaseEventLoop):
    def __init__(self):
        super().__init__(); self._vtime=0.0; self.exc_reports=[]
        self.set_exception_handler(lambda loop, ctx: self.exc_reports.append(str(ctx.get('message'))+repr(ctx.get('exception'))))
    def time(self): return self._vtime
    def _process_events(self, e): pass
    def _write_to_self(self): pass
    def due(self):
        while self._scheduled and self._scheduled[0]._cancelled:
            h=heapq.heappop(self._scheduled); h._scheduled=False
        while self._scheduled and self._scheduled[0]._when<=self._vtime:
            h=heapq.heappop(self._scheduled); h._scheduled=False
            if not h._cancelled: self._ready.append(h)
    def turn(self):
        self.due()
        for _ in range(len(self._ready)):
            h=self._ready.popleft()
            if not h._cancelled: h._run()
    def next_deadline(self):
        while self._scheduled and self._scheduled[0]._cancelled:
            h=heapq.heappop(self._scheduled); h._scheduled=False
        return self._scheduled[0]._when if self._scheduled else None
    def has_ready(self):
        self.due(); return any(not h._cancelled for h in self._ready)
    async def create_connection(self, pf, host=None, port=None, **kw):
        return await self.net.connect(self, pf)

class SimTransport(transports.Transport):
    def __init__(self, loop, protocol, net, cid):
        super().__init__(); self._loop=loop; self._protocol=protocol; self.net=net; self.cid=cid
        self._closing=False; self._conn_lost=0; self.lost=False; self.fail_next=False; self.closed_by=None
    def is_closing(self): return self._closing
    def get_extra_info(self, n, d=None): return d
    def write(self, data):
        if self._conn_lost: self._conn_lost+=1; return
        if self.fail_next:
            self.net.obs(("write_fail", self.cid)); self._fatal(ConnectionResetError("sim")); return
        self.net.obs(("write", self.cid, bytes(data)))
    def _fatal(self, exc, by="fault"):
        if self._conn_lost: return
        self._closing=True; self._conn_lost+=1; self.closed_by=self.closed_by or by
        self._loop.call_soon(self._lost, exc)
    def close(self):
        if self._closing: return
        by="client"
        f=sys._getframe(1)
        while f is not None:
            if f.f_code.co_name=="__del__": by="gc"; break
            f=f.f_back
        self._closing=True; self._conn_lost+=1; self.closed_by=by
        self.net.obs(("close", self.cid, by))
        self._loop.call_soon(self._lost, None)
    def abort(self): self._fatal(None, "client")
    def _lost(self, exc):
        try: self._protocol.connection_lost(exc)
        finally: self.lost=True; self.net.obs(("lost", self.cid))
    # peer events are scheduled as handles
    def peer_send(self, data): self._loop.call_soon(self._rx, data)
    def _rx(self, data):
        if not self._closing: self._protocol.data_received(data)
    def peer_eof(self): self._loop.call_soon(self._eof)
    def _eof(self):
        if self._closing: return
        if not self._protocol.eof_received(): self.close()
    def peer_reset(self): self._loop.call_soon(self._fatal, ConnectionResetError("rst"), "peer")

class Net:
    def __init__(self, loop): self.loop=loop; self.conns=[]; self.pending=[]; self.log=[]
    def obs(self, e): self.log.append((self.loop.time(),)+e)
    async def connect(self, loop, pf):
        fut=loop.create_future(); self.pending.append((fut,pf)); self.obs(("attempt",))
        try:
            ok=await fut
        finally:
            self.pending=[p for p in self.pending if p[0] is not fut]
        if not ok: self.obs(("refused",)); raise ConnectionRefusedError("sim")
        p=pf(); t=SimTransport(loop,p,self,len(self.conns)); self.conns.append(t); self.obs(("open",t.cid)); p.connection_made(t)
        return t,p
    def live(self): return [t for t in self.conns if not t._closing]
    def unlost(self): return [t for t in self.conns if not t.lost]

def canonical_as_completed(fs, *, timeout=None):
    # deterministic clone of asyncio.as_completed (task creation in canonical order)
    from asyncio import queues
    loop=events.get_running_loop()
    fs=list(fs)
    def key(f):
        c=f if inspect.iscoroutine(f) else None
        return (c.cr_code.co_qualname if c else type(f).__name__)
    fs.sort(key=key)
    done=queues.Queue(); todo=[asyncio.ensure_future(f, loop=loop) for f in fs]
    pending=set(todo)
    def _on_completion(f):
        pending.discard(f); done.put_nowait(f)
    async def _wait_for_one():
        f=await done.get(); return f.result()
    for f in todo: f.add_done_callback(_on_completion)
    for _ in range(len(todo)): yield _wait_for_one()
asyncio.as_completed = canonical_as_completed
