import asyncio, heapq, collections
from asyncio import events, base_events, transports

class VLoop(base_events.BaseEventLoop):
    def __init__(self):
        super().__init__()
        self._vtime = 0.0
        self.net = None
        self.exc_reports = []
        self.set_exception_handler(lambda loop, ctx: self.exc_reports.append(ctx))
    def time(self): return self._vtime
    def _process_events(self, evs): pass
    def _write_to_self(self): pass
    # one "turn": run all currently ready handles
    def run_ready(self):
        n = len(self._ready)
        for _ in range(n):
            h = self._ready.popleft()
            if not h._cancelled:
                h._run()
        return n
    def pending_timers(self):
        return sorted((h._when for h in self._scheduled if not h._cancelled))
    def advance_to_next_timer(self):
        while self._scheduled and self._scheduled[0]._cancelled:
            h = heapq.heappop(self._scheduled); h._scheduled = False
        if not self._scheduled: return False
        when = self._scheduled[0]._when
        self._vtime = max(self._vtime, when)
        while self._scheduled and self._scheduled[0]._when <= self._vtime:
            h = heapq.heappop(self._scheduled); h._scheduled = False
            if not h._cancelled: self._ready.append(h)
        return True
    def settle(self, limit=10000):
        k = 0
        while self._ready:
            self.run_ready(); k += 1
            assert k < limit
    async def create_connection(self, protocol_factory, host=None, port=None, **kw):
        return await self.net.connect(self, protocol_factory, host, port)

class SimTransport(transports.Transport):
    def __init__(self, loop, protocol, net, cid):
        super().__init__()
        self._loop = loop; self._protocol = protocol; self.net = net; self.cid = cid
        self._closing = False; self._conn_lost = 0; self.written = bytearray(); self.closed = False
        self.fail_write_at = None; self.nwrites = 0
    def is_closing(self): return self._closing
    def get_extra_info(self, name, default=None): return default
    def set_write_buffer_limits(self, high=None, low=None): pass
    def get_write_buffer_size(self): return 0
    def is_reading(self): return not self._closing
    def pause_reading(self): pass
    def resume_reading(self): pass
    def write(self, data):
        if self._conn_lost:
            self._conn_lost += 1
            return
        self.nwrites += 1
        if self.fail_write_at is not None and self.nwrites >= self.fail_write_at:
            self._fatal(ConnectionResetError("sim write error")); return
        self.written += data
        self.net.log.append(("write", self.cid, bytes(data), self._loop.time()))
    def _fatal(self, exc):
        if self._conn_lost: return
        self._closing = True; self._conn_lost += 1
        self._loop.call_soon(self._call_connection_lost, exc)
    def close(self):
        if self._closing: return
        self._closing = True; self._conn_lost += 1
        self._loop.call_soon(self._call_connection_lost, None)
    def abort(self): self._fatal(None)
    def _call_connection_lost(self, exc):
        try: self._protocol.connection_lost(exc)
        finally:
            self.closed = True
            self.net.log.append(("closed", self.cid, self._loop.time()))
    # peer side
    def peer_send(self, data):
        if not self._closing: self._protocol.data_received(data)
    def peer_eof(self):
        if self._closing: return
        keep = self._protocol.eof_received()
        if not keep: self.close()
    def peer_reset(self): self._fatal(ConnectionResetError("sim reset"))

class Net:
    def __init__(self): self.log = []; self.conns = []; self.script = collections.deque(); self.pending = []
    async def connect(self, loop, pf, host, port):
        self.log.append(("connect_attempt", loop.time()))
        action = self.script.popleft() if self.script else ("accept", 0.0)
        kind, lat = action
        if lat: await asyncio.sleep(lat)
        else: await asyncio.sleep(0)
        if kind == "refuse":
            self.log.append(("refused", loop.time())); raise ConnectionRefusedError("sim refused")
        p = pf(); t = SimTransport(loop, p, self, len(self.conns)); self.conns.append(t)
        self.log.append(("open", t.cid, loop.time()))
        p.connection_made(t)
        return t, p
    def open_conns(self): return [t for t in self.conns if not t.closed]

def mk():
    loop = VLoop(); loop.net = Net()
    events._set_running_loop(loop)
    return loop
