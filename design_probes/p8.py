import asyncio, logging, warnings, time
from mc import *
import pyairtouch, pyairtouch.api as api
import pyairtouch.at4.comms.registry as R4
from pyairtouch.at4.comms import hdr as H4, x1F_ext as X, x1FFF30_console_ver as CV, x1FFF12_group_names as GN, x1FFF11_ac_ability as AB, x2D_ac_status as AS, x37_ac_timer_status as TS, x2B_group_status as GS, x2C_ac_ctrl as AC
logging.disable(logging.CRITICAL); warnings.simplefilter("ignore")
reg=R4.INSTANCE
def frame(msg, to=0xB0, frm=0x80, pid=1):
    enc=reg.get_encoder(msg.message_id); h=H4.At4Header(to,frm,pid,msg.message_id,0)
    body=bytes(enc.encode(h,msg)); h=H4.At4Header(to,frm,pid,msg.message_id,len(body))
    eh=reg.header_encoder.encode(h); return eh.header_bytes+body+reg.checksum_calculator.calculate(eh.checksum_data+body)
def parse(buf):
    out=[]; hd=reg.header_decoder
    while buf:
        r=hd.decode(buf[:8]); h=r.header; body=buf[8:8+h.message_length]
        out.append(reg.get_decoder(h.message_id).decode(body,h).message); buf=buf[8+h.message_length+2:]
    return out
modes={m:True for m in AC.AcModeControl}; fans={f:True for f in AC.AcFanSpeedControl}
state={"sp":22}
def answer(m):
    if isinstance(m,X.ExtendedMessage):
        s=m.sub_message
        if isinstance(s,CV.ConsoleVersionRequest): return X.ExtendedMessage(CV.ConsoleVersionMessage(False,["1.3.3"]))
        if isinstance(s,GN.GroupNamesRequest): return X.ExtendedMessage(GN.GroupNamesMessage({0:"A",1:"B"}))
        if isinstance(s,AB.AcAbilityRequest): return X.ExtendedMessage(AB.AcAbilityMessage([AB.AcAbility(0,"AC",modes,fans,17,30,{0,1},0,2)]))
        return None
    if isinstance(m,AS.AcStatusRequest): return AS.AcStatusMessage([AS.AcStatusData(0,AS.AcPowerState.ON,AS.AcMode.COOL,AS.AcFanSpeed.LOW,False,False,state["sp"],23.0,0)])
    if isinstance(m,TS.AcTimerStatusRequest): return TS.AcTimerStatusMessage([TS.AcTimerStatusData(i,TS.AcTimerState(True,0,0),TS.AcTimerState(True,0,0)) for i in range(4)])
    if isinstance(m,GS.GroupStatusRequest): return GS.GroupStatusMessage([GS.GroupStatusData(z,GS.GroupPowerState.ON,GS.GroupControlMethod.DAMPER,False,False,False,GS.SensorBatteryStatus.NORMAL,None,50,None) for z in (0,1)])
loop=VLoop(); events._set_running_loop(loop); net=Net(loop); loop.net=net
at=pyairtouch.connect(api.AirTouchModel.AIRTOUCH_4,"h",9004)
calls=[]
async def sub(i): calls.append((loop.time(),i))
task=loop.create_task(at.init())
seen={}
answering=True
def pump(until):
    for _ in range(100000):
        if net.pending: net.pending.pop(0)[0].set_result(True)
        if loop.has_ready(): loop.turn(); 
        else:
            # answer requests
            did=False
            for t in net.live():
                w=b"".join(e[3] for e in net.log if e[1]=="write" and e[2]==t.cid)
                k=seen.get(t.cid,0)
                if len(w)>k:
                    seen[t.cid]=len(w)
                    for r in parse(w[k:]):
                        print(f"  t={loop.time():7.1f} conn{t.cid} <- {type(r).__name__}{'('+type(r.sub_message).__name__+')' if hasattr(r,'sub_message') else ''}")
                        a=answer(r) if answering else None
                        if a: t.peer_send(frame(a)); did=True
            if did: continue
            nd=loop.next_deadline()
            if nd is None or nd>until: loop._vtime=until; return
            loop._vtime=nd
pump(1.0); print("init", task.result(), "t", loop.time())
for ac in at.air_conditioners: ac.subscribe(sub)
print("--- idle to 650 s")
pump(650.0)
print("--- peer reset at 650, console state changed meanwhile")
state["sp"]=25
net.live()[-1].peer_reset(); pump(660.0)
print("target", at.air_conditioners[0].target_temperature, "calls", calls)
print("--- console goes silent until 1400")
answering=False; pump(1400.0)
print([ (round(e[0],1),)+e[1:3] for e in net.log if e[1] in ("open","close","lost","attempt")])
print("--- shutdown"); t=loop.create_task(at.shutdown()); pump(3000.0); print("done", t.done(), "tasks", len(asyncio.all_tasks(loop)), "timers", loop.next_deadline(), [ (round(e[0],1),)+e[1:3] for e in net.log if e[1] in ("open","close","attempt")][-3:])
