"""Quick size()/round-trip sweep over one or two instances of every message class (probe for C03)."""
import datetime, itertools, traceback
import pyairtouch.at4.comms.registry as R4, pyairtouch.at5.comms.registry as R5
from pyairtouch.at4.comms import hdr as H4, x1F_ext as X4, x1FFF10_err_info as E4, x1FFF11_ac_ability as A4, x1FFF12_group_names as G4, x1FFF20_quick_timer as Q4, x1FFF30_console_ver as V4, x2A_group_ctrl as GC4, x2B_group_status as GS4, x2C_ac_ctrl as AC4, x2D_ac_status as AS4, x36_ac_timer_ctrl as TC4, x37_ac_timer_status as TS4
from pyairtouch.at5.comms import hdr as H5, x1F_ext as X5, xC0_ctrl_status as C5, x1FFF10_err_info as E5, x1FFF11_ac_ability as A5, x1FFF13_zone_names as Z5, x1FFF30_console_ver as V5, x1FFF49_quick_timer as Q5, xC020_zone_ctrl as ZC5, xC021_zone_status as ZS5, xC022_ac_ctrl as AC5, xC023_ac_status as AS5, xC032_ac_timer_ctrl as TC5, xC033_ac_timer_status as TS5
m4={m:True for m in AC4.AcModeControl}; f4={f:(f.value%2==0) for f in AC4.AcFanSpeedControl}; f4[AC4.AcFanSpeedControl.UNCHANGED]=True
m5={m:True for m in AC5.AcModeControl}; f5={f:True for f in AC5.AcFanSpeedControl}
T=TS4.AcTimerState; T5=TS5.AcTimerState
at4=[
 X4.ExtendedMessage(E4.AcErrorInformationRequest(2)), X4.ExtendedMessage(E4.AcErrorInformationMessage(1,"ER: FFFE")), X4.ExtendedMessage(E4.AcErrorInformationMessage(1,None)), X4.ExtendedMessage(E4.AcErrorInformationMessage(1,"é€")),
 X4.ExtendedMessage(A4.AcAbilityRequest("ALL")), X4.ExtendedMessage(A4.AcAbilityRequest(3)),
 X4.ExtendedMessage(A4.AcAbilityMessage([A4.AcAbility(0,"UNIT",m4,f4,17,31,{0,1,15},0,4), A4.AcAbility(1,"Sixteen chars xyz",m4,f4,17,31,None,4,2)])),
 X4.ExtendedMessage(A4.AcAbilityMessage([A4.AcAbility(1,"Ünïté",m4,f4,17,31,None,4,2)])),
 X4.ExtendedMessage(G4.GroupNamesRequest("ALL")), X4.ExtendedMessage(G4.GroupNamesRequest(7)), X4.ExtendedMessage(G4.GroupNamesMessage({0:"Living",3:"Kitchen8", 5:"", 6:"Zöne"})),
 X4.ExtendedMessage(Q4.QuickTimerMessage(1,Q4.TimerType.ON_TIMER,datetime.timedelta(hours=3,minutes=59))),
 X4.ExtendedMessage(V4.ConsoleVersionRequest()), X4.ExtendedMessage(V4.ConsoleVersionMessage(True,["1.3.3","1.3.3"])),
 GC4.GroupControlMessage(15,GC4.GroupPowerControl.TURBO,GC4.GroupControlMethod.CHANGE,GC4.GroupIncreaseDecrease.INCREASE), GC4.GroupControlMessage(1,GC4.GroupPowerControl.UNCHANGED,GC4.GroupControlMethod.TEMPERATURE,GC4.GroupSetPointControl(23)), GC4.GroupControlMessage(1,GC4.GroupPowerControl.UNCHANGED,GC4.GroupControlMethod.DAMPER,GC4.GroupDamperControl(0)),
 GS4.GroupStatusRequest(), GS4.GroupStatusMessage([GS4.GroupStatusData(3,GS4.GroupPowerState.TURBO,GS4.GroupControlMethod.TEMPERATURE,True,True,True,GS4.SensorBatteryStatus.LOW,24.3,100,26), GS4.GroupStatusData(4,GS4.GroupPowerState.OFF,GS4.GroupControlMethod.DAMPER,False,False,True,GS4.SensorBatteryStatus.NORMAL,0.0,0,0), GS4.GroupStatusData(5,GS4.GroupPowerState.ON,GS4.GroupControlMethod.DAMPER,False,False,False,GS4.SensorBatteryStatus.NORMAL,None,5,None), GS4.GroupStatusData(6,GS4.GroupPowerState.ON,GS4.GroupControlMethod.DAMPER,False,False,True,GS4.SensorBatteryStatus.NORMAL,-12.5,5,17)]), GS4.GroupStatusMessage([]),
 AC4.AcControlMessage(3,AC4.AcPowerControl.TOGGLE,AC4.AcModeControl.COOL,AC4.AcFanSpeedControl.TURBO,AC4.AcSetPointValue(31)), AC4.AcControlMessage(0,AC4.AcPowerControl.UNCHANGED,AC4.AcModeControl.UNCHANGED,AC4.AcFanSpeedControl.UNCHANGED,None), AC4.AcControlMessage(0,AC4.AcPowerControl.TURN_ON,AC4.AcModeControl.AUTO,AC4.AcFanSpeedControl.AUTO,AC4.AcIncreaseDecrease.DECREASE), AC4.AcControlMessage(0,AC4.AcPowerControl.TURN_ON,AC4.AcModeControl.AUTO,AC4.AcFanSpeedControl.AUTO,AC4.AcSetPointValue(0)),
 AS4.AcStatusRequest(), AS4.AcStatusMessage([AS4.AcStatusData(1,AS4.AcPowerState.ON,AS4.AcMode.AUTO_COOL,AS4.AcFanSpeed.TURBO,True,True,26,28.0,0xfffe), AS4.AcStatusData(0,AS4.AcPowerState.OFF,AS4.AcMode.AUTO,AS4.AcFanSpeed.AUTO,False,False,0,0.0,0), AS4.AcStatusData(2,AS4.AcPowerState.OFF,AS4.AcMode.AUTO,AS4.AcFanSpeed.AUTO,False,False,63,-50.0,1)]),
 TC4.AcTimerControlMessage([TC4.AcTimerControlData(2,T(False,23,59),T(True,0,0))]), TS4.AcTimerStatusRequest(), TS4.AcTimerStatusMessage([TS4.AcTimerStatusData(i,T(i%2==0,i,i*7),T(True,0,0)) for i in range(4)]),
]
at5=[
 X5.ExtendedMessage(E5.AcErrorInformationRequest(15)), X5.ExtendedMessage(E5.AcErrorInformationMessage(1,"ER: FFFE")), X5.ExtendedMessage(E5.AcErrorInformationMessage(1,None)),
 X5.ExtendedMessage(A5.AcAbilityRequest("ALL")), X5.ExtendedMessage(A5.AcAbilityRequest(3)), X5.ExtendedMessage(A5.AcAbilityMessage([A5.AcAbility(0,"UNIT",0,4,m5,f5,16,31,18,31), A5.AcAbility(9,"Ünït",4,0,m5,f5,0,255,18,31)])),
 X5.ExtendedMessage(Z5.ZoneNamesRequest("ALL")), X5.ExtendedMessage(Z5.ZoneNamesRequest(15)), X5.ExtendedMessage(Z5.ZoneNamesMessage({0:"Living",1:"Kitchen",2:"",3:"Zöne €"})), X5.ExtendedMessage(Z5.ZoneNamesMessage({})),
 X5.ExtendedMessage(V5.ConsoleVersionRequest()), X5.ExtendedMessage(V5.ConsoleVersionMessage(False,["1.0.3","1.0.3"])), X5.ExtendedMessage(V5.ConsoleVersionMessage(True,["1.0.3"])),
 X5.ExtendedMessage(Q5.QuickTimerMessage(1,Q5.TimerType.OFF_TIMER,datetime.timedelta(hours=23,minutes=1))),
 C5.ControlStatusMessage(ZC5.ZoneControlMessage([ZC5.ZoneControlData(1,ZC5.ZonePowerControl.TURN_OFF,None), ZC5.ZoneControlData(15,ZC5.ZonePowerControl.TURBO,ZC5.ZoneSetPointControl(25.5)), ZC5.ZoneControlData(2,ZC5.ZonePowerControl.UNCHANGED,ZC5.ZoneDamperControl(100)), ZC5.ZoneControlData(2,ZC5.ZonePowerControl.TOGGLE,ZC5.ZoneIncreaseDecrease.DECREASE), ZC5.ZoneControlData(2,ZC5.ZonePowerControl.UNCHANGED,ZC5.ZoneDamperControl(0)), ZC5.ZoneControlData(2,ZC5.ZonePowerControl.UNCHANGED,ZC5.ZoneSetPointControl(10.0))])),
 C5.ControlStatusMessage(ZC5.ZoneControlMessage([])),
 C5.ControlStatusMessage(ZS5.ZoneStatusRequest()), C5.ControlStatusMessage(ZS5.ZoneStatusMessage([ZS5.ZoneStatusData(0,ZS5.ZonePowerState.ON,False,ZS5.ZoneControlMethod.TEMPERATURE,True,ZS5.SensorBatteryStatus.NORMAL,24.3,0,25.0), ZS5.ZoneStatusData(1,ZS5.ZonePowerState.OFF,True,ZS5.ZoneControlMethod.DAMPER,False,ZS5.SensorBatteryStatus.LOW,None,100,None), ZS5.ZoneStatusData(2,ZS5.ZonePowerState.TURBO,False,ZS5.ZoneControlMethod.DAMPER,True,ZS5.SensorBatteryStatus.LOW,0.0,100,10.0), ZS5.ZoneStatusData(3,ZS5.ZonePowerState.TURBO,False,ZS5.ZoneControlMethod.DAMPER,True,ZS5.SensorBatteryStatus.LOW,-50.0,100,35.0)])),
 C5.ControlStatusMessage(AC5.AcControlMessage([AC5.AcControlData(1,AC5.AcPowerControl.TURN_OFF,AC5.AcModeControl.UNCHANGED,AC5.AcFanSpeedControl.UNCHANGED,None), AC5.AcControlData(15,AC5.AcPowerControl.SET_TO_SLEEP,AC5.AcModeControl.COOL,AC5.AcFanSpeedControl.INTELLIGENT_AUTO,26.0), AC5.AcControlData(0,AC5.AcPowerControl.UNCHANGED,AC5.AcModeControl.AUTO,AC5.AcFanSpeedControl.AUTO,10.0)])),
 C5.ControlStatusMessage(AS5.AcStatusRequest()), C5.ControlStatusMessage(AS5.AcStatusMessage([AS5.AcStatusData(0,AS5.AcPowerState.ON,AS5.AcMode.HEAT,AS5.AcFanSpeed.LOW,False,False,False,False,22.0,23.0,0), AS5.AcStatusData(15,AS5.AcPowerState.SLEEP,AS5.AcMode.AUTO_COOL,AS5.AcFanSpeed.INTELLIGENT_AUTO_TURBO,True,True,True,True,10.0,-50.0,65535), AS5.AcStatusData(1,AS5.AcPowerState.OFF,AS5.AcMode.AUTO,AS5.AcFanSpeed.AUTO,False,False,False,False,35.0,0.0,0)])),
 C5.ControlStatusMessage(TC5.AcTimerControlMessage([TC5.AcTimerControlData(2,T5(False,23,59),T5(True,0,0))])), C5.ControlStatusMessage(TS5.AcTimerStatusRequest()), C5.ControlStatusMessage(TS5.AcTimerStatusMessage([TS5.AcTimerStatusData(i,T5(i%2==0,i,i*7),T5(True,0,0)) for i in (0,3,15)])),
]
def rt(reg, Hdr, msgs):
    for m in msgs:
        try:
            enc=reg.get_encoder(m.message_id); n=enc.size(m)
            h=reg.header_factory.create_from_message(m,n)
            eh=reg.header_encoder.encode(h); body=bytes(enc.encode(h,m))
            name=type(getattr(m,'sub_message',m)).__name__
            if len(body)!=n: print("SIZE", name, "size()",n,"encoded",len(body)); h=type(h)(h.to_address,h.from_address,h.packet_id,h.message_id,len(body)); eh=reg.header_encoder.encode(h)
            d=reg.header_decoder.decode(eh.header_bytes); d.assert_complete()
            if d.header!=h: print("HDR", name)
            r=reg.get_decoder(h.message_id).decode(body,d.header); r.assert_complete()
            if r.message!=m: print("DIFF", name, "\n   sent", m, "\n   got ", r.message)
        except Exception as e:
            print("EXC", type(getattr(m,'sub_message',m)).__name__, type(e).__name__, e)
rt(R4.INSTANCE,H4,at4); rt(R5.INSTANCE,H5,at5); print("swept",len(at4),len(at5))
import dataclasses
def fdiff(a,b,path=""):
    if dataclasses.is_dataclass(a) and type(a)==type(b):
        for f in dataclasses.fields(a): fdiff(getattr(a,f.name),getattr(b,f.name),path+"."+f.name)
    elif isinstance(a,(list,tuple)) and isinstance(b,(list,tuple)) and len(a)==len(b):
        for i,(x,y) in enumerate(zip(a,b)): fdiff(x,y,path+f"[{i}]")
    elif a!=b: print("   ", path, repr(a)[:80], "!=", repr(b)[:80])
def rt2(reg,msgs):
    for m in msgs:
        enc=reg.get_encoder(m.message_id); h=reg.header_factory.create_from_message(m,0); body=bytes(enc.encode(h,m)); h=type(h)(h.to_address,h.from_address,h.packet_id,h.message_id,len(body))
        try: r=reg.get_decoder(h.message_id).decode(body,h)
        except Exception as e: print("EXC",e); continue
        if r.message!=m: print(type(getattr(m,'sub_message',m)).__name__); fdiff(m,r.message)
rt2(R4.INSTANCE,at4); rt2(R5.INSTANCE,at5)
