import re, zlib, sys

def parse_objs(data):
    objs = {}
    for m in re.finditer(rb'(\d+) (\d+) obj(.*?)endobj', data, re.S):
        objs[int(m.group(1))] = m.group(3)
    return objs

def stream_of(body):
    i = body.find(b'stream')
    if i < 0: return None
    hdr = body[:i]
    j = i + 6
    if body[j:j+2] == b'\r\n': j += 2
    elif body[j:j+1] == b'\n': j += 1
    k = body.rfind(b'endstream')
    raw = body[j:k]
    if b'FlateDecode' in hdr:
        try:
            return zlib.decompress(raw)
        except Exception:
            return zlib.decompressobj().decompress(raw)
    return raw

def parse_tounicode(cmap):
    mp = {}
    for blk in re.findall(rb'beginbfchar(.*?)endbfchar', cmap, re.S):
        for a, b in re.findall(rb'<([0-9A-Fa-f]+)>\s*<([0-9A-Fa-f]+)>', blk):
            mp[int(a, 16)] = bytes.fromhex(b.decode()).decode('utf-16-be', 'replace')
    for blk in re.findall(rb'beginbfrange(.*?)endbfrange', cmap, re.S):
        for a, b, c in re.findall(rb'<([0-9A-Fa-f]+)>\s*<([0-9A-Fa-f]+)>\s*<([0-9A-Fa-f]+)>', blk):
            a, b, c0 = int(a, 16), int(b, 16), int(c, 16)
            for i in range(a, b + 1):
                mp[i] = chr(c0 + i - a)
        for a, b, arr in re.findall(rb'<([0-9A-Fa-f]+)>\s*<([0-9A-Fa-f]+)>\s*\[(.*?)\]', blk, re.S):
            a = int(a, 16)
            for i, c in enumerate(re.findall(rb'<([0-9A-Fa-f]+)>', arr)):
                mp[a + i] = bytes.fromhex(c.decode()).decode('utf-16-be', 'replace')
    return mp

def main(path):
    data = open(path, 'rb').read()
    objs = parse_objs(data)
    pages_obj = None
    for n, b in objs.items():
        if b'/Type/Pages' in b:
            pages_obj = b
    kids = [int(x) for x in re.findall(rb'(\d+) 0 R', re.search(rb'/Kids\[(.*?)\]', pages_obj, re.S).group(1))]
    for pno, k in enumerate(kids, 1):
        pb = objs[k]
        fonts = {}
        fm = re.search(rb'/Font<<(.*?)>>', pb, re.S)
        if fm:
            for name, ref in re.findall(rb'/(\w+) (\d+) 0 R', fm.group(1)):
                fb = objs[int(ref)]
                tu = re.search(rb'/ToUnicode (\d+) 0 R', fb)
                twobyte = b'Identity-H' in fb
                mp = parse_tounicode(stream_of(objs[int(tu.group(1))])) if tu else None
                fonts[name.decode()] = (twobyte, mp)
        cm = re.search(rb'/Contents (\d+) 0 R', pb)
        cm_arr = re.search(rb'/Contents\s*\[(.*?)\]', pb, re.S)
        refs = [int(cm.group(1))] if cm else [int(x) for x in re.findall(rb'(\d+) 0 R', cm_arr.group(1))]
        content = b'\n'.join(stream_of(objs[r]) for r in refs)
        print(f'\n===== PAGE {pno} =====')
        items = extract(content, fonts)
        # group by y
        lines = {}
        for (x, y, s) in items:
            key = round(y)
            lines.setdefault(key, []).append((x, s))
        # merge close y
        keys = sorted(lines, reverse=True)
        for key in keys:
            segs = sorted(lines[key])
            out = ''
            lastx = None
            for x, s in segs:
                out += ('' if lastx is None else ' | ' if x - lastx > 40 else '') + s
                lastx = x
            print(f'{key:4d}: ' + ' '.join(s for _, s in segs))

tok_re = re.compile(rb'\((?:\\.|[^\\()])*\)|<[0-9A-Fa-f\s]*>|\[|\]|/[^\s/\[\]()<>]+|[-+]?\d*\.?\d+|[A-Za-z\'"*]+|<<|>>')

def unescape(b):
    out = bytearray()
    i = 0
    while i < len(b):
        c = b[i]
        if c == 0x5c:
            i += 1
            c = b[i]
            if c in b'nrtbf':
                out.append({110: 10, 114: 13, 116: 9, 98: 8, 102: 12}[c])
            elif 48 <= c <= 55:
                j = i
                while j < len(b) and j < i + 3 and 48 <= b[j] <= 55: j += 1
                out.append(int(b[i:j], 8) & 255)
                i = j - 1
            else:
                out.append(c)
        else:
            out.append(c)
        i += 1
    return bytes(out)

def extract(content, fonts):
    items = []
    stack = []
    font = None
    tm = [1, 0, 0, 1, 0, 0]
    lm = [1, 0, 0, 1, 0, 0]
    ctm_stack = []
    ctm = [1,0,0,1,0,0]
    def decode(bs):
        if font is None: return bs.decode('latin1')
        two, mp = font
        if two:
            codes = [int.from_bytes(bs[i:i+2], 'big') for i in range(0, len(bs), 2)]
        else:
            codes = list(bs)
        if mp:
            return ''.join(mp.get(c, '?') for c in codes)
        return bytes(codes).decode('cp1252', 'replace') if not two else ''.join(chr(c) for c in codes)
    def pos():
        x = tm[4]; y = tm[5]
        return (ctm[0]*x + ctm[2]*y + ctm[4], ctm[1]*x + ctm[3]*y + ctm[5])
    in_arr = None
    for m in tok_re.finditer(content):
        t = m.group(0)
        if t == b'[':
            in_arr = []
            continue
        if t == b']':
            stack.append(in_arr); in_arr = None
            continue
        if t[:1] == b'(':
            v = ('s', unescape(t[1:-1]))
        elif t[:1] == b'<' and t != b'<<':
            hx = re.sub(rb'\s', b'', t[1:-1]).decode()
            if len(hx) % 2: hx += '0'
            v = ('s', bytes.fromhex(hx))
        elif t[:1] == b'/':
            v = ('n', t[1:].decode())
        elif re.fullmatch(rb'[-+]?\d*\.?\d+', t):
            v = ('f', float(t))
        else:
            op = t.decode()
            if op == 'BT':
                tm = [1,0,0,1,0,0]; lm = list(tm)
            elif op == 'Tf':
                font = fonts.get(stack[-2][1])
            elif op == 'Td' or op == 'TD':
                tx, ty = stack[-2][1], stack[-1][1]
                lm = [lm[0], lm[1], lm[2], lm[3], lm[4] + tx*lm[0] + ty*lm[2], lm[5] + tx*lm[1] + ty*lm[3]]
                tm = list(lm)
            elif op == 'Tm':
                tm = [x[1] for x in stack[-6:]]; lm = list(tm)
            elif op == 'cm':
                a = [x[1] for x in stack[-6:]]
                c = ctm
                ctm = [a[0]*c[0]+a[1]*c[2], a[0]*c[1]+a[1]*c[3], a[2]*c[0]+a[3]*c[2], a[2]*c[1]+a[3]*c[3], a[4]*c[0]+a[5]*c[2]+c[4], a[4]*c[1]+a[5]*c[3]+c[5]]
            elif op == 'q':
                ctm_stack.append(list(ctm))
            elif op == 'Q':
                if ctm_stack: ctm = ctm_stack.pop()
            elif op == 'Tj':
                x, y = pos(); items.append((x, y, decode(stack[-1][1])))
            elif op == 'TJ':
                s = ''
                for e in stack[-1]:
                    if e[0] == 's': s += decode(e[1])
                    elif e[0] == 'f' and e[1] < -200: s += ' '
                x, y = pos(); items.append((x, y, s))
            stack = []
            continue
        if in_arr is not None: in_arr.append(v)
        else: stack.append(v)
    return items

main(sys.argv[1])
