"""Determinism of fingerprints across processes: prints path -> fingerprint for a sample of paths of
every explorer scenario (used by ./check selftest, which runs it in two separate processes and diffs)."""
import json
import sys

from . import explorer

CASES = [
    ("pvmc.props.c01:Scenario", {"gen": 4, "max_send": 3}, 5, 1),
    ("pvmc.props.c02:Scenario", {"gen": 5, "max_send": 2, "max_fault": 3, "max_adv": 1}, 5, 1),
    ("pvmc.props.c16:Scenario", {"gen": 4, "max_send": 4, "max_adv": 1, "pattern": "BBBB"}, 5, 0),
    ("pvmc.props.c07:Scenario", {"gen": 5}, 3, 1),
    ("pvmc.props.c08:Scenario", {"gen": 4, "mode": "api", "config": [300.0, 330.0], "beats": 1, "side": 1}, 40, 0),
    ("pvmc.props.c08:Scenario", {"gen": 5, "mode": "bare", "config": [10.0, 15.0], "beats": 1, "side": {"outage": 1}}, 40, 0),
    ("pvmc.props.c14:Scenario", {"gen": 4, "macro": True, "max_tick": 2, "max_loss": 1, "max_edit": 1, "max_adv": 1, "poll": True}, 4, 0),
    ("pvmc.props.c14:Scenario", {"gen": 5, "macro": False, "max_tick": 1, "max_loss": 1, "max_edit": 1, "max_adv": 0, "poll": False}, 3, 1),
    ("pvmc.props.c15:Scenario", {"gen": 4, "script": [["accept"], ["answer"], ["answer"], ["failw"], ["answer"]], "max_tick": 99}, 6, 1),
    ("pvmc.props.c15:Scenario", {"gen": 5, "max_tick": 2, "failw": True}, 4, 1),
]


def sample(spec, params, depth, dev, limit=120):
    out = []
    frontier = [((), 0, 0)]
    while frontier and len(out) < limit:
        nxt = []
        for (p, ev, dv) in frontier:
            r = explorer._expand((spec, params, p, ev, dv, depth, dev, False))
            if r[0] == "harness":
                raise explorer.HarnessError(r[2])
            for (a, k, nev, ndv, fp, viol, q, fv, o) in r[2]:
                out.append((json.dumps(list(p + (a,))), fp))
                if not viol:
                    nxt.append((p + (a,), nev, ndv))
            if len(out) >= limit:
                break
        frontier = nxt[:: max(1, len(nxt) // 12)]
    return out


def main():
    for spec, params, depth, dev in CASES:
        for path, fp in sample(spec, params, depth, dev):
            print(spec.split(":")[0][-3:], params["gen"], fp, path)


if __name__ == "__main__":
    import logging
    import warnings
    logging.disable(logging.CRITICAL)
    warnings.simplefilter("ignore")
    sys.unraisablehook = lambda *a: None
    main()
