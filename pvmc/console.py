"""SimConsole: a plain-Python AirTouch 4/5 console built on the reference codec only (DESIGN §4.2).

An *installation* (what the console is) and a mutable *state* (what it reports) are plain
dicts.  The console parses the client's byte stream with the reference framer, answers each
request as the vendor documents describe, and lets the environment decide *when* answers leave.
"""
from __future__ import annotations

import copy

from .ref import at4, at5, framing

ABSENT = at4.ABSENT


def default_installation(gen, n_ac=1, zones_per_ac=(2,), fmt="new"):
    """Contiguous zones, all abilities.  fmt (AT4 only): 'new' = group bitmap, 'old' = start/count."""
    acs = []
    zones = {}
    z = 0
    for a in range(n_ac):
        nz = zones_per_ac[a] if a < len(zones_per_ac) else 0
        ids = list(range(z, z + nz))
        for i in ids:
            zones[i] = f"Zone{i}"
        ac = {"ac": a, "name": f"AC{a}", "modes": {"auto", "heat", "dry", "fan", "cool"},
              "fans": {"auto", "quiet", "low", "medium", "high", "powerful", "turbo"},
              "zones": ids, "start": z, "count": nz}
        if gen == 4:
            ac.update({"min": 16, "max": 30})
        else:
            ac["fans"] = ac["fans"] | {"intelligent_auto"}
            ac.update({"min_cool": 16, "max_cool": 30, "min_heat": 14, "max_heat": 28})
        acs.append(ac)
        z += nz
    return {"gen": gen, "acs": acs, "zones": zones, "fmt": fmt, "update": False,
            "versions": ["1.2.3"] if gen == 4 else ["1.0.3", "1.0.3"]}


def default_state(inst):
    st = {"ac": {}, "zone": {}, "timer": {}, "error": {}}
    for a in inst["acs"]:
        st["ac"][a["ac"]] = {"ac": a["ac"], "power": "on", "mode": "cool", "fan": "low", "setpoint": 24 if inst["gen"] == 4 else 24.0,
                             "temperature": 25.5, "spill": False, "timer": False, "error": 0,
                             "turbo": False, "bypass": False}
        st["timer"][a["ac"]] = {"ac": a["ac"], "on": {"disabled": True, "hour": 0, "minute": 0},
                                "off": {"disabled": True, "hour": 0, "minute": 0}}
        st["error"][a["ac"]] = None
    for z in inst["zones"]:
        key = "group" if inst["gen"] == 4 else "zone"
        st["zone"][z] = {key: z, "power": "on", "method": "temperature", "percent": 100,
                         "setpoint": 22 if inst["gen"] == 4 else 22.0, "sensor": True, "temperature": 23.4,
                         "spill": False, "battery_low": False, "turbo_support": True}
    return st


class SimConsole:
    def __init__(self, net, inst, state=None, auto=True):
        self.net = net
        self.gen = inst["gen"]
        self.inst = inst
        self.state = state if state is not None else default_state(inst)
        self.auto = auto            # answer immediately; else answers wait in self.outbox
        self.silent = False         # never answer
        self.rx = {}                # cid -> bytearray
        self.requests = []          # (time, cid, kind, frame)  every frame received from the client
        self.outbox = []            # [(cid, bytes, kind)] answers not yet sent
        self.commands = []          # control commands received, reference-read
        self.answer_hook = None     # optional fn(kind, frame, answers) -> answers (to mutate / drop)
        net.on_open = self._on_open
        net.on_write = self._on_write

    # -- plumbing -----------------------------------------------------------------------------
    def _on_open(self, t):
        self.rx[t.cid] = bytearray()

    def _on_write(self, t, data):
        buf = self.rx.setdefault(t.cid, bytearray())
        buf += data
        frames, residue, err = framing.split(self.gen, bytes(buf))
        if err:
            self.requests.append((self.net.loop.time(), t.cid, "garbled", None))
            buf.clear()
            return
        self.rx[t.cid] = bytearray(residue)
        for fr in frames:
            self._handle(t, fr)

    def live(self):
        lst = self.net.live()
        return lst[-1] if lst else None

    def send_raw(self, data, cid=None):
        t = self.live() if cid is None else next((x for x in self.net.conns if x.cid == cid), None)
        if t is not None and not t._closing:
            t.peer_send(data)
            return True
        return False

    def flush(self, n=None):
        """Send the first n (default all) waiting answers."""
        k = len(self.outbox) if n is None else n
        for _ in range(min(k, len(self.outbox))):
            cid, data, kind = self.outbox.pop(0)
            self.send_raw(data, cid)

    # -- frames from the console ------------------------------------------------------------------
    def fr(self, typ, data, pid=0, ext=False, to=0xB0):
        frm = 0x90 if ext else 0x80
        return framing.frame(self.gen, to, frm, pid, typ, data)

    def ext(self, sub, payload, pid=0, to=0xB0):
        return self.fr(0x1F, bytes([sub >> 8, sub & 0xFF]) + payload, pid, ext=True, to=to)

    def version_frame(self, pid=0):
        sep = b"|" if self.gen == 4 else b","
        return self.ext(0xFF30, at4.write_version(self.inst["update"], self.inst["versions"], sep), pid)

    def names_frame(self, pid=0, only=None):
        zs = {z: n for z, n in self.inst["zones"].items() if only is None or z == only}
        if self.gen == 4:
            return self.ext(0xFF12, at4.write_group_names(zs), pid)
        return self.ext(0xFF13, at5.write_zone_names(zs), pid)

    def ability_frame(self, pid=0, only=None):
        acs = [a for a in self.inst["acs"] if only is None or a["ac"] == only]
        if self.gen == 4:
            recs = []
            for a in acs:
                r = dict(a)
                r["groups"] = set(a["zones"]) if self.inst["fmt"] == "new" else None
                r["start"] = a.get("start", 0)
                r["count"] = a.get("count", len(a["zones"]))
                recs.append(r)
            return self.ext(0xFF11, at4.write_ability(recs), pid)
        return self.ext(0xFF11, at5.write_ability(acs), pid)

    def ac_status_frame(self, pid=0, only=None, rl=10):
        acs = [s for k, s in sorted(self.state["ac"].items()) if only is None or k in only]
        if self.gen == 4:
            return self.fr(0x2D, at4.write_ac_status(acs), pid)
        return self.fr(0xC0, at5.write_ac_status(acs, rl=rl), pid)

    def zone_status_frame(self, pid=0, only=None, rl=8):
        zs = [s for k, s in sorted(self.state["zone"].items()) if only is None or k in only]
        if self.gen == 4:
            return self.fr(0x2B, at4.write_group_status(zs), pid)
        return self.fr(0xC0, at5.write_zone_status(zs, rl=rl), pid)

    def timer_status_frame(self, pid=0):
        if self.gen == 4:
            return self.fr(0x37, at4.write_timer_slots({k: v for k, v in self.state["timer"].items() if k < 4}), pid)
        return self.fr(0xC0, at5.write_timer_records(0x33, [v for k, v in sorted(self.state["timer"].items())]), pid)

    def error_frame(self, ac, pid=0):
        txt = self.state["error"].get(ac)
        return self.ext(0xFF10, at4.write_error(ac, txt.encode() if isinstance(txt, str) else txt), pid)

    # -- request handling ----------------------------------------------------------------------
    def _handle(self, t, fr):
        now = self.net.loop.time()
        kind, answers = self.classify(fr)
        self.requests.append((now, t.cid, kind, fr))
        if self.answer_hook:
            answers = self.answer_hook(kind, fr, answers)
        if self.silent:
            return
        for a in answers:
            if self.auto:
                t.peer_send(a)
            else:
                self.outbox.append((t.cid, a, kind))

    def classify(self, fr):  # noqa: C901, PLR0911, PLR0912
        """-> (kind, [answer frames]) for one client frame, read with the reference codec."""
        g = self.gen
        pid = fr.pid
        if not fr.crc_ok:
            return "bad-crc", []
        if fr.typ == 0x1F:
            try:
                sub, p = at4.split_ext(fr.data)
            except at4.Malformed:
                return "malformed", []
            if sub == 0xFF30 and not p:
                return "req-version", [self.version_frame(pid)]
            if sub == (0xFF12 if g == 4 else 0xFF13):
                if g == 5 and not self.inst["zones"]:
                    # zero-zone AT5 console echoes the request with to-address 0xB0 (docs/design.md)
                    return "req-names", [framing.frame(5, 0xB0, 0x90, pid, 0x1F, fr.data)]
                return "req-names", [self.names_frame(pid, only=p[0] if p else None)]
            if sub == 0xFF11 and len(p) <= 1:
                return "req-ability", [self.ability_frame(pid, only=p[0] if p else None)]
            if sub == 0xFF10 and len(p) == 1:
                return "req-error", [self.error_frame(p[0], pid)]
            if sub == (0xFF20 if g == 4 else 0xFF49):
                self.commands.append(("quick-timer", at4.read_quick_timer(p)))
                return "cmd-quick-timer", []
            return f"ext-{sub:04x}", []
        if g == 4:
            if fr.typ == 0x2B and not fr.data:
                return "req-zone-status", [self.zone_status_frame(pid)]
            if fr.typ == 0x2D and not fr.data:
                return "req-ac-status", [self.ac_status_frame(pid)]
            if fr.typ == 0x37 and not fr.data:
                return "req-timer-status", [self.timer_status_frame(pid)]
            if fr.typ == 0x2A:
                c = at4.read_group_control(fr.data)
                self.commands.append(("zone-control", c))
                self.apply_zone_control(c["group"], c)
                return "cmd-zone", [self.zone_status_frame(pid, only=[c["group"]])]
            if fr.typ == 0x2C:
                c = at4.read_ac_control(fr.data)
                self.commands.append(("ac-control", c))
                self.apply_ac_control(c)
                return "cmd-ac", [self.ac_status_frame(pid, only=[c["ac"]])]
            if fr.typ == 0x36:
                slots = at4.read_timer_slots(fr.data)
                self.commands.append(("timer-control", slots))
                zero = {"disabled": False, "hour": 0, "minute": 0}
                self.apply_timer_control([x for x in slots if x["on"] != zero or x["off"] != zero])
                return "cmd-timer", [self.timer_status_frame(pid)]
            return f"type-{fr.typ:02x}", []
        if fr.typ == 0xC0:
            try:
                sub, normal, rl, rc, rest = at5.split_c0(fr.data)
            except at4.Malformed:
                return "malformed", []
            if sub == 0x21 and rc == 0:
                if not self.inst["zones"]:
                    return "req-zone-status", [framing.frame(5, 0xB0, 0x80, pid, 0xC0, fr.data)]
                return "req-zone-status", [self.zone_status_frame(pid)]
            if sub == 0x23 and rc == 0:
                return "req-ac-status", [self.ac_status_frame(pid)]
            if sub == 0x33 and rc == 0:
                return "req-timer-status", [self.timer_status_frame(pid)]
            if sub == 0x20:
                cs = at5.read_zone_control(normal, rl, rc, rest)
                for c in cs:
                    self.commands.append(("zone-control", c))
                    self.apply_zone_control(c["zone"], c)
                return "cmd-zone", [self.zone_status_frame(pid, only=[c["zone"] for c in cs])]
            if sub == 0x22:
                cs = at5.read_ac_control(normal, rl, rc, rest)
                for c in cs:
                    self.commands.append(("ac-control", c))
                    self.apply_ac_control(c)
                return "cmd-ac", [self.ac_status_frame(pid, only=[c["ac"] for c in cs])]
            if sub == 0x32:
                recs = at5.read_timer_records(normal, rl, rc, rest)
                self.commands.append(("timer-control", recs))
                self.apply_timer_control(recs)
                return "cmd-timer", [self.timer_status_frame(pid)]
            return f"c0-{sub:02x}", []
        return f"type-{fr.typ:02x}", []

    # -- semantics of control commands (only what the histories of C14/C19 need) ------------------
    def apply_zone_control(self, z, c):
        s = self.state["zone"].get(z)
        if s is None:
            return
        p = c["power"]
        if p in ("off", "on", "turbo"):
            s["power"] = p
        elif p in ("next", "toggle"):
            s["power"] = "off" if s["power"] != "off" else "on"
        if c["method"] in ("percent", "temperature"):
            s["method"] = c["method"]
        elif c["method"] == "change":
            s["method"] = "percent" if s["method"] == "temperature" else "temperature"
        # AirTouch 5 has no control-method field: a console told to set a value of one kind controls the zone by
        # that kind from then on.  AirTouch 4 has the field, and its "other" codes are documented as "keep": the
        # value is stored and the method stays what it is unless the frame says otherwise.
        implied = self.gen == 5
        if c["setting"] == "percent":
            s["percent"] = c["value"]
            if c["method"] == at4.KEEP and implied:
                s["method"] = "percent"
        elif c["setting"] == "setpoint":
            s["setpoint"] = c["value"]
            if c["method"] == at4.KEEP and implied:
                s["method"] = "temperature"
        elif c["setting"] in ("inc", "dec"):
            d = 1 if c["setting"] == "inc" else -1
            if s["method"] == "temperature":
                s["setpoint"] += d
            else:
                s["percent"] = max(0, min(100, s["percent"] + 5 * d))

    def apply_timer_control(self, recs):
        """The console stores the timers it is told and reports them (AT4: slots that are all zero are the filler
        the client puts in for the other air-conditioners and are left alone)."""
        for x in recs:
            t = self.state["timer"].get(x["ac"])
            if t is None:
                continue
            t["on"] = dict(x["on"])
            t["off"] = dict(x["off"])

    def apply_ac_control(self, c):
        s = self.state["ac"].get(c["ac"])
        if s is None:
            return
        p = c["power"]
        if p in ("off", "on"):
            s["power"] = p
        elif p == "toggle":
            s["power"] = "off" if s["power"] == "on" else "on"
        elif p == "away":
            s["power"] = "away_on" if s["power"] == "on" else "away_off"
        elif p == "sleep":
            s["power"] = "sleep"
        if c["mode"] != at4.KEEP:
            s["mode"] = c["mode"]
        if c["fan"] != at4.KEEP:
            s["fan"] = c["fan"] if c["fan"] != "intelligent_auto" else "ia_low"
        if c["setpoint_ctl"] == "set":
            s["setpoint"] = c["setpoint"]
        elif c["setpoint_ctl"] in ("inc", "dec"):
            s["setpoint"] += 1 if c["setpoint_ctl"] == "inc" else -1

    def snapshot(self):
        return copy.deepcopy(self.state)
