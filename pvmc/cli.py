"""Command line: ./check <ID> --tier quick|thorough [--replay FILE]   |   ./check selftest"""
from __future__ import annotations

import argparse
import gc
import importlib
import logging
import os
import sys
import warnings


def _setup_repo():
    repo = os.environ.get("VERIF_REPO")
    if repo:
        sys.path.insert(0, repo)
    import pyairtouch  # noqa: F401
    return os.path.dirname(os.path.dirname(os.path.abspath(pyairtouch.__file__)))


def main(argv=None):
    ap = argparse.ArgumentParser()
    ap.add_argument("prop")
    ap.add_argument("--tier", default=os.environ.get("VERIF_TIER", "quick"), choices=["quick", "thorough"])
    ap.add_argument("--replay")
    ap.add_argument("--part", help="run only the named part of a check (debugging)")
    args = ap.parse_args(argv)
    logging.disable(logging.CRITICAL)
    warnings.simplefilter("ignore")
    sys.unraisablehook = lambda *a: None
    repo = _setup_repo()
    seed = int(os.environ.get("VERIF_SEED", "0") or 0)
    from pvmc import explorer
    if args.prop == "selftest":
        from pvmc import selftest
        return selftest.main()
    if args.replay:
        from pvmc import replaytool
        return replaytool.main(args.replay)
    pid = args.prop.upper()
    mod = importlib.import_module(f"pvmc.props.{pid.lower()}")
    print(f"# check {pid} tier={args.tier} seed={seed} repo={repo}")
    try:
        rc = mod.run(args.tier, seed, part=args.part)
    except explorer.HarnessError as e:
        print(f"HARNESS-ERROR property={pid}: {e}")
        rc = 2
    finally:
        explorer.close_pool()
    return rc


if __name__ == "__main__":
    _rc = main()
    sys.stdout.flush()
    sys.stderr.flush()
    os._exit(_rc)  # skip interpreter teardown: thousands of abandoned worlds hold pending coroutines
