"""pvmc - model checking machinery for pyairtouch (see /verif/DESIGN.md)."""
