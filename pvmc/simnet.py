"""Simulated network under the virtual loop.

``SimTransport`` reproduces the observable contract of CPython 3.12's
``_SelectorSocketTransport`` as far as asyncio streams rely on it (DESIGN
appendix B).  Peer-side events are *scheduled as handles*, like selector
callbacks, so they interleave with ready handles exactly like real I/O.

Every event is appended to ``Net.log`` as ``(virtual_time, kind, ...)``.
"""
from __future__ import annotations

import sys
from asyncio import transports


class SimTransport(transports.Transport):
    def __init__(self, loop, protocol, net, cid):
        super().__init__()
        self._loop = loop
        self._protocol = protocol
        self.net = net
        self.cid = cid
        self._closing = False
        self._conn_lost = 0
        self.lost = False          # connection_lost() delivered
        self.fail_after = None     # None: no fault armed; k: k more writes succeed, then one fails
        self.paused = False
        self.eof_from_peer = False
        self.closed_by = None      # 'client' | 'gc' | 'peer' | 'fault'
        self.opened_at = loop.time()
        self.written = bytearray()
        self._undelivered = []     # log indices of writes made during a stall (the peer has not seen them yet)
        self._held = []            # (log index, offset in self.written, caller's mutable buffer) queued during a stall
        self.buffered = False      # bytes accepted while the peer's window was closed and not flushed since
        self.linger = False        # close() is waiting for those bytes to be flushed (as _SelectorSocketTransport does)

    # --- transport API used by streams -------------------------------------------------
    def is_closing(self):
        return self._closing

    def get_extra_info(self, name, default=None):
        return default

    def set_write_buffer_limits(self, high=None, low=None):
        pass

    def get_write_buffer_size(self):
        return 0

    def is_reading(self):
        return not self._closing

    def pause_reading(self):
        pass

    def resume_reading(self):
        pass

    def can_write_eof(self):
        return True

    def write(self, data):
        if not data:
            return
        if self._conn_lost:
            self._conn_lost += 1
            self.net.obs("write_after_loss", self.cid, bytes(data))
            return
        if self.fail_after is not None:
            if self.fail_after <= 0:
                self.fail_after = None
                self.net.obs("write_fail", self.cid, bytes(data))
                self._fatal(ConnectionResetError("sim: write error"), "fault")
                return
            self.fail_after -= 1
        self.written += data
        if self.paused:
            self.buffered = True
            if isinstance(data, (bytearray, memoryview)):
                # CPython 3.12's selector transport queues a memoryview of the caller's buffer: what reaches the peer
                # is the buffer's content when the stall ends, not when write() was called
                self._held.append((len(self.net.log), len(self.written) - len(data), data))
        self.net.obs("write", self.cid, bytes(data))
        if self.paused:
            # the peer gets these bytes when the stall ends (and then whatever the caller's buffer holds by then)
            self._undelivered.append(len(self.net.log) - 1)
        elif self.net.on_write:
            self.net.on_write(self, bytes(data))

    def _fatal(self, exc, by):
        if self._conn_lost:
            return
        self._closing = True
        self._conn_lost += 1
        if self.closed_by is None:
            self.closed_by = by
        self.net.obs("abort", self.cid, by)
        self._loop.call_soon(self._call_connection_lost, exc)

    def close(self):
        if self._closing:
            return
        by = "client"
        f = sys._getframe(1)
        while f is not None:
            if f.f_code.co_name == "__del__":
                by = "gc"
                break
            f = f.f_back
        self._closing = True
        self.closed_by = by
        self.net.obs("close", self.cid, by)
        if self.paused and self.buffered:
            # CPython: with a non-empty write buffer close() only stops reading; connection_lost() follows once the
            # buffer has been flushed (or the connection fails)
            self.linger = True
            return
        self._conn_lost += 1
        self._loop.call_soon(self._call_connection_lost, None)

    def abort(self):
        self._fatal(None, "client")

    def _call_connection_lost(self, exc):
        try:
            self._protocol.connection_lost(exc)
        finally:
            self.lost = True
            self.net.obs("lost", self.cid)

    # --- peer side: every event is a scheduled handle --------------------------------
    def peer_send(self, data):
        self._loop.call_soon(self._rx, bytes(data))

    def _rx(self, data):
        if self._closing or self.eof_from_peer:
            return
        self._protocol.data_received(data)

    def peer_eof(self):
        self._loop.call_soon(self._eof)

    def _eof(self):
        if self._closing or self.eof_from_peer:
            return
        self.eof_from_peer = True
        keep_open = self._protocol.eof_received()
        if not keep_open:
            self.close()

    def peer_reset(self, exc=None):
        self._loop.call_soon(self._reset, exc)

    def _reset(self, exc=None):
        if self.eof_from_peer and not self._closing:
            # After EOF asyncio has removed the read callback (streams keep the transport open for
            # writing), so a later RST is only noticed by the next write.
            self.fail_after = 0
            return
        self._fatal(exc or ConnectionResetError("sim: reset by peer"), "peer")

    def pause(self):
        self._loop.call_soon(self._pause)

    def _pause(self):
        if not self._closing and not self.paused:
            self.paused = True
            self.net.obs("pause", self.cid)
            self._protocol.pause_writing()

    def resume(self):
        self._loop.call_soon(self._resume)

    def _resume(self):
        if self.paused:
            self.paused = False
            self.buffered = False
            for (li, off, ref) in self._held:
                now = bytes(ref)
                e = self.net.log[li]
                if now != e[3]:
                    self.net.log[li] = e[:3] + (now,) + e[4:]
                    self.written[off:off + len(now)] = now
            self._held = []
            self.net.obs("resume", self.cid)
            if self.net.on_write:
                for li in self._undelivered:
                    self.net.on_write(self, self.net.log[li][3])
            self._undelivered = []
            if self.linger and not self._conn_lost:
                self.linger = False
                self._conn_lost += 1
                self._loop.call_soon(self._call_connection_lost, None)
                return
            if not self.lost:
                self._protocol.resume_writing()


class Net:
    """The simulated peer and connection broker."""

    def __init__(self, loop):
        self.loop = loop
        self.conns: list[SimTransport] = []
        self.pending = []        # [(future, protocol_factory)] unresolved connect attempts
        self.log = []
        self.auto = None         # None: environment decides; "accept"/"refuse": immediate
        self.on_open = None      # callback(transport) e.g. the simulated console
        self.on_write = None     # callback(transport, data) for every successful write
        self.dgram = []          # datagram endpoints
        self.pause_next = False  # the next connection opens with a full send buffer (zero window)
        loop.net = self

    def obs(self, kind, *rest):
        self.log.append((self.loop.time(), kind) + rest)

    async def connect(self, loop, protocol_factory, host, port):
        self.obs("attempt", host, port)
        if self.auto is None:
            fut = loop.create_future()
            entry = (fut, protocol_factory)
            self.pending.append(entry)
            try:
                ok = await fut
            finally:
                if entry in self.pending:
                    self.pending.remove(entry)
        else:
            ok = self.auto == "accept"
            # a real connect always takes at least one loop iteration
            fut = loop.create_future()
            loop.call_soon(lambda: fut.done() or fut.set_result(None))
            await fut
        if ok is not True:
            self.obs("refused")
            # the attempt fails: refused by default, or with the error the environment chose (unreachable host or
            # network and name resolution failures are OSErrors that are not ConnectionErrors)
            raise ok if isinstance(ok, BaseException) else ConnectionRefusedError("sim: connection refused")
        protocol = protocol_factory()
        t = SimTransport(loop, protocol, self, len(self.conns))
        self.conns.append(t)
        self.obs("open", t.cid)
        protocol.connection_made(t)
        if self.pause_next:
            self.pause_next = False
            t._pause()
        if self.on_open:
            self.on_open(t)
        return t, protocol

    def resolve(self, accept: bool, index: int = 0, exc=None):
        fut, _ = self.pending.pop(index)
        if not fut.done():
            fut.set_result(accept if exc is None or accept else exc)

    def resolve_all(self, accept=True):
        while self.pending:
            self.resolve(accept)

    # -- views ---------------------------------------------------------------------------
    def live(self):
        """Transports usable by the client (not closing)."""
        return [t for t in self.conns if not t._closing]

    def stalled(self):
        """Transports whose peer window is closed and that have not been torn down (live or lingering in close())."""
        return [t for t in self.conns if t.paused and not t.lost and not t._conn_lost]

    def unlost(self):
        """Transports opened and not yet torn down (connection_lost not delivered)."""
        return [t for t in self.conns if not t.lost]

    def open_count(self):
        """Connections that are open from the console's point of view."""
        return sum(1 for t in self.conns if not t._closing)

    # -- datagrams -------------------------------------------------------------------------
    async def datagram_endpoint(self, loop, protocol_factory, sock):
        protocol = protocol_factory()
        t = SimDatagramTransport(loop, protocol, self, len(self.dgram), sock)
        self.dgram.append(t)
        self.obs("dgram_open", t.did, getattr(sock, "bound", None))
        # as in CPython: connection_made via call_soon, endpoint returns after it
        fut = loop.create_future()
        loop.call_soon(protocol.connection_made, t)
        loop.call_soon(lambda: fut.done() or fut.set_result(None))
        await fut
        return t, protocol


class SimDatagramTransport(transports.DatagramTransport):
    def __init__(self, loop, protocol, net, did, sock):
        super().__init__()
        self._loop = loop
        self._protocol = protocol
        self.net = net
        self.did = did
        self.sock = sock
        self._closing = False
        self.lost = False
        self.sent = []

    def is_closing(self):
        return self._closing

    def get_extra_info(self, name, default=None):
        if name == "socket":
            return self.sock
        return default

    def sendto(self, data, addr=None):
        if not data:
            return
        if self._closing:
            self.net.obs("dgram_send_after_close", self.did, bytes(data), addr)
            return
        self.sent.append((self._loop.time(), bytes(data), addr))
        self.net.obs("dgram_send", self.did, bytes(data), addr)

    def close(self):
        if self._closing:
            return
        self._closing = True
        self.net.obs("dgram_close", self.did)
        self._loop.call_soon(self._call_connection_lost, None)

    def abort(self):
        self.close()

    def _call_connection_lost(self, exc):
        try:
            self._protocol.connection_lost(exc)
        finally:
            self.lost = True

    # peer side
    def peer_datagram(self, data, addr=("192.168.1.5", 49005)):
        self._loop.call_soon(self._rx, bytes(data), addr)

    def _rx(self, data, addr):
        # CPython: _read_ready() returns early once the connection is lost/closing
        if self._closing:
            self.net.obs("dgram_dropped_after_close", self.did, data)
            return
        # datagram_received is called outside any try block in CPython: an exception
        # propagates to Handle._run and is reported to the loop exception handler.
        self._protocol.datagram_received(data, addr)


class FakeSocketModule:
    """Stand-in for the ``socket`` module inside pyairtouch.comms.discovery / udp."""

    AF_INET = 2
    SOCK_DGRAM = 2
    IPPROTO_UDP = 17
    SOL_SOCKET = 1
    SO_BROADCAST = 6

    def __init__(self):
        self.created = []

    def socket(self, family=None, type=None, proto=None):  # noqa: A002
        s = FakeSocket(family, type, proto)
        self.created.append(s)
        return s


class FakeSocket:
    def __init__(self, family, type_, proto):
        self.family, self.type, self.proto = family, type_, proto
        self.opts = []
        self.bound = None
        self.closed = False

    def setsockopt(self, level, opt, value):
        self.opts.append((level, opt, value))

    def bind(self, addr):
        self.bound = addr

    def close(self):
        self.closed = True

    def setblocking(self, flag):
        pass

    def fileno(self):
        return -1
