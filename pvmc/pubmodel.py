"""Expected public view of an AirTouch object, derived from the console's installation/state dicts
(reference terms), and the observed view read through the public getters only.

Mapping source: docstrings of pyairtouch/api.py (public contract) + vendor reading (DESIGN §6 C10).
Values that the statement leaves open are represented by ANY / sets of admissible values.
"""
from __future__ import annotations

import datetime

from .ref.at4 import ABSENT

ANY = "<any>"


class OneOf(tuple):
    """admissible alternatives"""


def _sel_mode(m):
    return "AUTO" if m in ("auto_heat", "auto_cool") else m.upper()


def _act_mode(m):
    return {"auto_heat": "HEAT", "auto_cool": "COOL"}.get(m, m.upper())


def _sel_fan(f):
    return "INTELLIGENT_AUTO" if f.startswith("ia_") else f.upper()


def _act_fan(f):
    return f[3:].upper() if f.startswith("ia_") else f.upper()


_POWER = {"on": "ON", "off": "OFF", "away_on": "ON_AWAY", "away_off": "OFF_AWAY", "sleep": "SLEEP"}


def expected_ac(gen, ab, st, timer, err_text):
    """ab: installation AC record, st: AC status dict, timer: timer dict, err_text: console's error text."""
    v = {"ac_id": ab["ac"], "name": ab["name"]}
    v["power_state"] = _POWER[st["power"]]
    v["selected_mode"] = _sel_mode(st["mode"])
    v["active_mode"] = _act_mode(st["mode"])
    v["selected_fan_speed"] = _sel_fan(st["fan"])
    v["active_fan_speed"] = _act_fan(st["fan"]) if gen == 5 else _sel_fan(st["fan"])
    t = st.get("temperature", ABSENT)
    v["current_temperature"] = ANY if t is ABSENT or t is None else t
    sp = st.get("setpoint", ABSENT)
    v["target_temperature"] = ANY if sp is ABSENT or sp is None else sp
    v["target_temperature_resolution"] = 1.0 if gen == 4 else 0.1
    if gen == 4:
        v["min_target_temperature"], v["max_target_temperature"] = ab["min"], ab["max"]
        v["spill_state"] = "SPILL" if st.get("spill") else "NONE"
    else:
        heat = (ab["min_heat"], ab["max_heat"])
        cool = (ab["min_cool"], ab["max_cool"])
        union = (min(heat[0], cool[0]), max(heat[1], cool[1]))
        m = st["mode"]
        if m == "heat":
            lim = [heat]
        elif m == "cool":
            lim = [cool]
        elif m == "auto_heat":
            lim = [heat, union]
        elif m == "auto_cool":
            lim = [cool, union]
        else:
            lim = [union, heat, cool]        # auto / dry / fan: the statement does not fix it
        v["min_target_temperature"] = OneOf(x[0] for x in lim)
        v["max_target_temperature"] = OneOf(x[1] for x in lim)
        v["spill_state"] = "SPILL" if st.get("spill") else ("BYPASS" if st.get("bypass") else "NONE")
    for k, name in (("on", "ON_TIMER"), ("off", "OFF_TIMER")):
        ts = timer[k]
        v["timer_" + name] = None if ts["disabled"] else (ts["hour"], ts["minute"])
    code = st.get("error", 0)
    if code == 0:
        v["error_info"] = None
    else:
        txt = err_text
        if isinstance(txt, bytes):
            txt = txt.decode()
        v["error_info"] = (code, txt if txt else None)
    v["modes"] = sorted(m.upper() for m in ab["modes"])
    v["fans"] = sorted(f.upper() for f in ab["fans"])
    return v


def expected_zone(gen, zid, name, st):
    v = {"zone_id": zid, "name": name}
    v["power_state"] = st["power"].upper()
    v["control_method"] = "TEMPERATURE" if st["method"] == "temperature" else "DAMPER"
    v["has_temp_sensor"] = bool(st.get("sensor"))
    v["current_damper_percentage"] = st["percent"]
    v["spill_active"] = bool(st.get("spill"))
    v["target_temperature_resolution"] = 1.0 if gen == 4 else 0.1
    sensor = bool(st.get("sensor"))
    t = st.get("temperature", ABSENT)
    if not sensor or t is ABSENT or t is None:
        v["current_temperature"] = None
    else:
        v["current_temperature"] = t
    sp = st.get("setpoint", ABSENT)
    if sp is ABSENT or sp is None:
        v["target_temperature"] = None if gen == 5 else ANY
    elif not sensor:
        v["target_temperature"] = OneOf((None, sp))
    else:
        v["target_temperature"] = sp
    low = bool(st.get("battery_low"))
    v["sensor_battery_status"] = ("LOW" if low else "NORMAL") if sensor or not low else OneOf(("LOW", "NORMAL"))
    states = ["OFF", "ON"]
    if gen == 5 or st.get("turbo_support"):
        states.append("TURBO")
    v["supported_power_states"] = sorted(states)
    return v


def expected_view(gen, inst, state):
    acs = {}
    for ab in inst["acs"]:
        a = ab["ac"]
        v = expected_ac(gen, ab, state["ac"][a], state["timer"][a], state["error"].get(a))
        v["zones"] = sorted(ab["zones"])
        acs[a] = v
    zones = {z: expected_zone(gen, z, n, state["zone"][z]) for z, n in inst["zones"].items()}
    return {"acs": acs, "zones": zones, "update_available": bool(inst["update"]),
            "console_versions": [x if isinstance(x, str) else x.decode() for x in inst["versions"]]}


def observed_view(at):
    import pyairtouch
    acs = {}
    zones = {}
    for ac in at.air_conditioners:
        v = {"ac_id": ac.ac_id, "name": ac.name}
        for k in ("power_state", "selected_mode", "active_mode", "selected_fan_speed", "active_fan_speed", "spill_state"):
            try:
                v[k] = getattr(ac, k).name
            except Exception as e:  # noqa: BLE001
                v[k] = f"<raised {type(e).__name__}: {e}>"
        for k in ("current_temperature", "target_temperature", "target_temperature_resolution",
                  "min_target_temperature", "max_target_temperature"):
            try:
                v[k] = getattr(ac, k)
            except Exception as e:  # noqa: BLE001
                v[k] = f"<raised {type(e).__name__}>"
        for tt in (pyairtouch.AcTimerType.ON_TIMER, pyairtouch.AcTimerType.OFF_TIMER):
            try:
                t = ac.next_quick_timer(tt)
                v["timer_" + tt.name] = None if t is None else (t.hour, t.minute)
            except Exception as e:  # noqa: BLE001
                v["timer_" + tt.name] = f"<raised {type(e).__name__}>"
        ei = ac.error_info
        v["error_info"] = None if ei is None else (ei.code, ei.description)
        v["modes"] = sorted(m.name for m in ac.supported_modes)
        v["fans"] = sorted(f.name for f in ac.supported_fan_speeds)
        v["zones"] = sorted(z.zone_id for z in ac.zones)
        acs[ac.ac_id] = v
        for z in ac.zones:
            zones[z.zone_id] = observe_zone(z)
    return {"acs": acs, "zones": zones, "update_available": at.update_available,
            "console_versions": list(at.console_versions)}


def observe_zone(z):
    v = {"zone_id": z.zone_id, "name": z.name}
    for k in ("power_state", "control_method", "sensor_battery_status"):
        try:
            v[k] = getattr(z, k).name
        except Exception as e:  # noqa: BLE001
            v[k] = f"<raised {type(e).__name__}>"
    for k in ("has_temp_sensor", "current_damper_percentage", "spill_active", "target_temperature_resolution",
              "current_temperature", "target_temperature"):
        v[k] = getattr(z, k)
    v["supported_power_states"] = sorted(s.name for s in z.supported_power_states)
    return v


def _eq(exp, got):
    if exp is ANY:
        return True
    if isinstance(exp, OneOf):
        return any(_eq(e, got) for e in exp)
    if isinstance(exp, float) or isinstance(got, float):
        try:
            return exp is not None and got is not None and abs(float(exp) - float(got)) < 1e-9
        except (TypeError, ValueError):
            return False
    return exp == got


def diff(expected, observed, only_zones_of_acs=True):
    """-> list of 'path: expected X got Y' strings."""
    out = []
    for a, ev in expected["acs"].items():
        ov = observed["acs"].get(a)
        if ov is None:
            out.append(f"ac {a}: missing")
            continue
        for k, e in ev.items():
            if not _eq(e, ov.get(k)):
                out.append(f"ac {a}.{k}: expected {e!r} got {ov.get(k)!r}")
    for a in observed["acs"]:
        if a not in expected["acs"]:
            out.append(f"ac {a}: not in the installation")
    attached = {z for ev in expected["acs"].values() for z in ev["zones"]}
    for z, ev in expected["zones"].items():
        if z not in attached:
            continue
        ov = observed["zones"].get(z)
        if ov is None:
            out.append(f"zone {z}: missing")
            continue
        for k, e in ev.items():
            if not _eq(e, ov.get(k)):
                out.append(f"zone {z}.{k}: expected {e!r} got {ov.get(k)!r}")
    for k in ("update_available", "console_versions"):
        if not _eq(expected[k], observed[k]):
            out.append(f"{k}: expected {expected[k]!r} got {observed[k]!r}")
    return out
