"""Harness glue: render the library's decoded message objects in the vocabulary of the reference
readings (pvmc.ref), so that the two can be compared field by field.  No oracle logic lives here."""
from __future__ import annotations

from .ref.at4 import ABSENT

_METHOD = {"DAMPER": "percent", "TEMPERATURE": "temperature"}


def _b(s):
    return s.encode() if isinstance(s, str) else s


def _timer(t):
    return {"disabled": t.disabled, "hour": t.hour, "minute": t.minute}


def _modes(m):
    return {k.name.lower() for k, v in m.items() if v and k.name != "UNCHANGED"}


def view(gen, msg):  # noqa: C901, PLR0911, PLR0912
    """-> (kind, normalised content)"""
    n = type(msg).__name__
    if n in ("ExtendedMessage", "ControlStatusMessage"):
        return view(gen, msg.sub_message)
    if n == "UnsupportedMessage":
        return "unsupported", {"id": msg.unsupported_id, "raw": bytes(msg.raw_data)}
    if n.endswith("Request"):
        d = {}
        for k in ("ac_number", "group_number", "zone_number"):
            if hasattr(msg, k):
                d["which"] = getattr(msg, k)
        return "request:" + n, d
    if n == "GroupStatusMessage":
        return "zone-status", [{
            "group": g.group_number, "power": g.power_state.name.lower(), "method": _METHOD[g.control_method.name],
            "percent": g.damper_percentage, "battery_low": g.battery_status.name == "LOW", "turbo_support": g.supports_turbo,
            "setpoint": g.set_point, "sensor": g.has_sensor, "temperature": g.temperature, "spill": g.spill_active} for g in msg.groups]
    if n == "ZoneStatusMessage":
        return "zone-status", [{
            "zone": z.zone_number, "power": z.power_state.name.lower(), "method": _METHOD[z.control_method.name],
            "percent": z.damper_percentage, "setpoint": z.set_point, "sensor": z.has_sensor, "temperature": z.temperature,
            "spill": z.spill_active, "battery_low": z.battery_status.name == "LOW"} for z in msg.zones]
    if n == "AcStatusMessage":
        out = []
        for a in msg.ac_status:
            fan = a.fan_speed.name.lower().replace("intelligent_auto_", "ia_")
            d = {"ac": a.ac_number, "power": {"off_away": "away_off", "on_away": "away_on"}.get(a.power_state.name.lower(), a.power_state.name.lower()),
                 "mode": a.mode.name.lower(), "fan": fan, "spill": a.spill_active, "timer": a.timer_set,
                 "setpoint": a.set_point, "temperature": a.temperature, "error": a.error_code}
            if gen == 5:
                d.update({"turbo": a.turbo_active, "bypass": a.bypass_active})
            out.append(d)
        return "ac-status", out
    if n == "AcAbilityMessage":
        out = []
        for a in msg.ac_abilities:
            d = {"ac": a.ac_number, "name": _b(a.ac_name), "modes": _modes(a.ac_mode_support), "fans": _modes(a.fan_speed_support)}
            if gen == 4:
                d.update({"start": a.start_group, "count": a.group_count, "min": a.min_set_point, "max": a.max_set_point,
                          "groups": None if a.groups is None else set(a.groups)})
            else:
                d.update({"start": a.start_zone, "count": a.zone_count, "min_cool": a.min_cool_set_point, "max_cool": a.max_cool_set_point,
                          "min_heat": a.min_heat_set_point, "max_heat": a.max_heat_set_point})
            out.append(d)
        return "ability", out
    if n == "GroupNamesMessage":
        return "names", {k: _b(v) for k, v in msg.group_names.items()}
    if n == "ZoneNamesMessage":
        return "names", {k: _b(v) for k, v in msg.zone_names.items()}
    if n == "AcErrorInformationMessage":
        return "error", {"ac": msg.ac_number, "text": ABSENT if msg.error_info is None else _b(msg.error_info)}
    if n == "ConsoleVersionMessage":
        return "version", {"update": msg.update_available, "versions": [_b(v) for v in msg.versions]}
    if n in ("AcTimerStatusMessage", "AcTimerControlMessage"):
        return ("timer-status" if n == "AcTimerStatusMessage" else "timer-control"), [
            {"ac": t.ac_number, "on": _timer(t.on_timer), "off": _timer(t.off_timer)} for t in msg.ac_timer_status]
    if n == "QuickTimerMessage":
        total = int(msg.duration.total_seconds())
        return "quick-timer", {"ac": msg.ac_number, "type": "on" if msg.timer_type.name == "ON_TIMER" else "off",
                               "hours": total // 3600, "minutes": (total % 3600) // 60}
    if n in ("GroupControlMessage",):
        return "zone-control", {"group": msg.group_number, "power": msg.power.name, "method": msg.control_method.name,
                                "setting": repr(msg.setting)}
    if n in ("ZoneControlMessage", "AcControlMessage"):
        return n, repr(msg)
    return "other:" + n, repr(msg)
