"""./check selftest  - binds the trusted base to reality (DESIGN §2.2, §4.1).

1. ref:        the reference framing/CRC reproduces every complete example frame printed in the
               vendor PDFs and docs/design.md.
2. transport:  six short scripts run once against real loopback TCP on the stock selector loop
               and once against SimNet with a recording protocol built on the *real*
               StreamReader/StreamWriter; the observation sequences must be identical.
3. determinism: recorded choice strings replay to identical observation logs.
"""
from __future__ import annotations

import asyncio
import sys

from .ref import framing

# (generation, hex of a complete frame as printed) - AT4 v1.6 p.7-13, AT5 v1.2 p.8-18, docs/design.md
EXAMPLES = [
    (4, "5555 80b0 01 2a 0004 01020000 da59"),
    (4, "5555 80b0 01 2b 0000 f52f"),
    (4, "5555 80b0 01 2c 0004 00403f00 c28f"),
    (4, "5555 b080 01 2b 000c 406400 00ff00 41e41a 806180 6579"),
    (4, "5555 b080 01 2d 0010 40421a0061800000 01001a006180fffe cacb"),
    (4, "5555 90b0 01 1f 0003 ff1100 0983"),
    (5, "555555aa 80b0 0f c0 000c 2000 0000 0004 0001 0102ff00 f0a1"),
    (5, "555555aa 80b0 01 c0 0008 2100 0000 0000 0000 a431"),
    (5, "555555aa 80b0 01 c0 000c 2200 0000 0004 0001 21ff00ff d347"),
    (5, "555555aa 80b0 01 c0 0008 2300 0000 0000 0000 7db0"),
    (5, "555555aa 90b0 01 1f 0003 ff1100 0983"),
    (5, "555555aa 90b0 01 1f 0003 ff1000 9982"),
    (5, "555555aa 90b0 01 1f 0003 ff1300 6982"),
    (5, "555555aa 90b0 01 1f 0002 ff13 42cd"),
    (5, "555555aa 90b0 01 1f 0002 ff30 9b8c"),
    (5, "555555ab 0000 000e 000e 555555aa 90b0 31 1f 0002 ff13 b2c8"),
    (5, "555555ab 0000 000e 000e 555555aa b090 31 1f 0002 ff13 68eb"),
]


def test_ref():
    n = 0
    for gen, hx in EXAMPLES:
        raw = bytes.fromhex(hx.replace(" ", ""))
        if gen == 5 and not raw.startswith(b"\x55\x55\x55\xab"):
            body = raw[4:-2]
            assert framing.crc_bytes(body) == raw[-2:], f"CRC mismatch for printed example {hx}"
            to, frm, pid, typ = body[0], body[1], body[2], body[3]
            assert framing.at5_frame(to, frm, pid, typ, body[6:])[10:] == raw
        else:
            frames, residue, err = framing.split(gen, raw)
            assert err is None and residue == b"" and len(frames) == 1, (hx, err, residue)
            fr = frames[0]
            assert fr.crc_ok, f"CRC mismatch for printed example {hx}"
            assert framing.frame(gen, fr.to, fr.frm, fr.pid, fr.typ, fr.data) == raw
            if gen == 5:
                assert fr.outer_ok
        n += 1
    # reference readers against the printed interpretations
    from .ref import at4, at5
    g = at4.read_group_status(bytes.fromhex("40640000ff0041e41a806180"))
    assert g[0]["power"] == "on" and g[0]["percent"] == 100 and g[0]["temperature"] is at4.ABSENT
    assert g[1]["group"] == 1 and g[1]["setpoint"] == 26 and g[1]["temperature"] == 28.0 and g[1]["sensor"]
    a = at4.read_ac_status(bytes.fromhex("40421a006180000001001a006180fffe"))
    assert a[0]["mode"] == "cool" and a[0]["fan"] == "low" and a[0]["setpoint"] == 26 and a[0]["temperature"] == 28.0
    assert a[1]["power"] == "off" and a[1]["error"] == 0xFFFE
    sub, normal, rl, rc, rest = at5.split_c0(bytes.fromhex("2100000000080002" "4080968002e70000" "0164ff0007ff0000"))
    z = at5.read_zone_status(normal, rl, rc, rest)
    assert z[0]["setpoint"] == 25.0 and z[0]["temperature"] == 24.3 and z[0]["sensor"] and z[0]["power"] == "on"
    assert z[1]["setpoint"] is at5.ABSENT and z[1]["temperature"] is at5.ABSENT and z[1]["percent"] == 100
    sub, normal, rl, rc, rest = at5.split_c0(bytes.fromhex("23000000000a0002" "101278c002da00008000" "014264c002e400008000"))
    s = at5.read_ac_status(normal, rl, rc, rest)
    assert s[0]["power"] == "on" and s[0]["mode"] == "heat" and s[0]["fan"] == "low" and s[0]["setpoint"] == 22.0
    assert s[0]["temperature"] == 23.0 and s[1]["mode"] == "cool" and s[1]["setpoint"] == 20.0 and s[1]["temperature"] == 24.0
    ab = at5.read_ability(bytes.fromhex("0018" "554e4954000000000000000000000000" "0004171d101f121f"))
    assert ab[0]["name"] == b"UNIT" and ab[0]["count"] == 4 and ab[0]["modes"] == {"auto", "heat", "dry", "cool"}
    assert ab[0]["min_cool"] == 16 and ab[0]["max_cool"] == 31 and ab[0]["min_heat"] == 18
    zn = at5.read_zone_names(bytes.fromhex("00064c6976696e67" "01074b69746368656e" "0207426564726f6f6d"))
    assert zn == {0: b"Living", 1: b"Kitchen", 2: b"Bedroom"}
    c = at5.read_ac_control(0, 4, 2, bytes.fromhex("004f00ff" "01ff40a0"))
    assert c[0]["mode"] == "cool" and c[0]["fan"] == at5.KEEP and c[1]["setpoint"] == 26.0
    ab4 = at4.read_ability(bytes.fromhex("0018" "554e4954000000000000000000000000" "0004171d111f" "0700"))
    assert ab4[0]["groups"] == {0, 1, 2} and ab4[0]["min"] == 17 and ab4[0]["max"] == 31
    return n


# ------------------------------------------------------------------------------------------------
# transport conformance: the same client program over real TCP and over SimNet
SCRIPTS = ["write_then_peer_eof", "write_after_peer_reset", "close_while_reading", "refused",
           "eof_mid_read", "two_writes_then_close", "eof_then_reset_then_write"]


async def _client(open_conn, script, log, server_ctl):
    try:
        reader, writer = await open_conn()
    except OSError as e:
        log.append(("connect_error", "OSError" if isinstance(e, OSError) else type(e).__name__))
        return
    log.append(("connected",))
    try:
        if script == "write_then_peer_eof":
            writer.write(b"hello")
            await writer.drain()
            log.append(("drained",))
            await server_ctl("eof")
            data = await reader.read(100)
            log.append(("read", data))
            log.append(("closing?", writer.is_closing()))
            writer.write(b"more")
            await writer.drain()
            log.append(("drained after eof",))
        elif script == "write_after_peer_reset":
            await server_ctl("reset")
            try:
                await reader.readexactly(4)
            except (asyncio.IncompleteReadError, OSError) as e:
                log.append(("read_error", "OSError" if isinstance(e, OSError) else type(e).__name__))
            log.append(("closing?", writer.is_closing()))
            writer.write(b"x")
            try:
                await writer.drain()
                log.append(("drained",))
            except OSError as e:
                log.append(("drain_error", "OSError" if isinstance(e, OSError) else type(e).__name__))
        elif script == "close_while_reading":
            async def rd():
                try:
                    await reader.readexactly(4)
                    log.append(("read_ok",))
                except asyncio.IncompleteReadError as e:
                    log.append(("incomplete", e.partial))
                except OSError as e:
                    log.append(("read_oserror", "OSError" if isinstance(e, OSError) else type(e).__name__))
            t = asyncio.ensure_future(rd())
            await asyncio.sleep(0)
            writer.close()
            await writer.wait_closed()
            log.append(("closed",))
            await t
        elif script == "eof_mid_read":
            await server_ctl("send:ab")
            await server_ctl("eof")
            try:
                await reader.readexactly(4)
            except asyncio.IncompleteReadError as e:
                log.append(("incomplete", e.partial))
            log.append(("closing?", writer.is_closing()))
        elif script == "eof_then_reset_then_write":
            await server_ctl("eof")
            data = await reader.read(100)
            log.append(("read", data))
            await server_ctl("reset")
            log.append(("closing?", writer.is_closing()))
            writer.write(b"x")
            try:
                await writer.drain()
                log.append(("drained",))
            except OSError as e:
                log.append(("drain_error", "OSError" if isinstance(e, OSError) else type(e).__name__))
            log.append(("closing?", writer.is_closing()))
        elif script == "two_writes_then_close":
            writer.write(b"a")
            writer.write(b"b")
            await writer.drain()
            writer.close()
            try:
                await writer.wait_closed()
                log.append(("wait_closed ok",))
            except OSError as e:
                log.append(("wait_closed error", "OSError" if isinstance(e, OSError) else type(e).__name__))
            log.append(("closing?", writer.is_closing()))
    finally:
        if not writer.is_closing():
            writer.close()
        try:
            await writer.wait_closed()
        except OSError as e:
            log.append(("final wait_closed error", "OSError" if isinstance(e, OSError) else type(e).__name__))
        log.append(("done",))


def _run_real(script):
    import socket as pysock
    import struct
    log = []

    async def main():
        conns = []
        if script == "refused":
            s = pysock.socket()
            s.bind(("127.0.0.1", 0))
            port = s.getsockname()[1]
            s.close()

            async def open_conn():
                return await asyncio.open_connection("127.0.0.1", port)
            await _client(open_conn, script, log, None)
            return
        accepted = asyncio.Event()

        async def on_conn(r, w):
            conns.append((r, w))
            accepted.set()
        server = await asyncio.start_server(on_conn, "127.0.0.1", 0)
        port = server.sockets[0].getsockname()[1]

        async def ctl(cmd):
            await accepted.wait()
            r, w = conns[0]
            if cmd == "eof":
                w.write_eof()
            elif cmd == "reset":
                sock = w.get_extra_info("socket")
                sock.setsockopt(pysock.SOL_SOCKET, pysock.SO_LINGER, struct.pack("ii", 1, 0))
                w.transport.abort()
            elif cmd.startswith("send:"):
                w.write(cmd[5:].encode())
                await w.drain()
            await asyncio.sleep(0.05)

        async def open_conn():
            return await asyncio.open_connection("127.0.0.1", port)
        await _client(open_conn, script, log, ctl)
        server.close()
        for r, w in conns:
            w.close()
    asyncio.run(asyncio.wait_for(main(), 10))
    return log


def _run_sim(script):
    from . import simnet, vloop
    log = []
    loop = vloop.VLoop()
    vloop.install(loop)
    net = simnet.Net(loop)
    net.auto = "refuse" if script == "refused" else "accept"

    async def ctl(cmd):
        t = net.conns[0]
        if cmd == "eof":
            t.peer_eof()
        elif cmd == "reset":
            t.peer_reset()
        elif cmd.startswith("send:"):
            t.peer_send(cmd[5:].encode())
        await asyncio.sleep(0.05)

    async def open_conn():
        return await asyncio.open_connection("console", 9)
    task = loop.create_task(_client(open_conn, script, log, ctl))
    loop.run_until(10.0)
    assert task.done(), f"sim script {script} did not finish"
    if task.exception():
        raise task.exception()
    vloop.uninstall()
    return log


def test_transport():
    import socket as pysock
    try:
        s = pysock.socket()
        s.bind(("127.0.0.1", 0))
        s.close()
    except OSError as e:
        print(f"  transport: loopback TCP unavailable ({e}); conformance comparison skipped")
        return 0
    n = 0
    for script in SCRIPTS:
        sim = _run_sim(script)
        real = _run_real(script)
        if real != sim:
            print(f"  transport script {script}:\n    real={real}\n    sim ={sim}")
            raise AssertionError(f"SimTransport diverges from loopback TCP on script {script}")
        n += 1
    return n


def test_determinism():
    from . import explorer
    from .props import c07
    paths = [
        [["run"], ["run"], ["accept"], ["run"], ["run"], ["run"], ["run"], ["run"], ["failw"], ["send"], ["run"], ["run"],
         ["run"], ["run"]],
        [["run"], ["run"], ["sendbad", "struct"], ["run"], ["accept"], ["run"], ["run"], ["run"]],
        [["run"], ["run"], ["refuse"], ["run"], ["run"], ["tick"], ["run"], ["accept"], ["run"], ["run"], ["garbage"], ["run"]],
    ]
    n = 0
    for gen in (4, 5):
        for p in paths:
            logs = []
            for _ in range(2):
                w, v, _i = explorer.replay(c07.SPEC, {"gen": gen}, p)
                logs.append((w.render_log(), w.fingerprint()))
            assert logs[0] == logs[1], "replay not deterministic"
            n += 1
    return n


def test_fingerprints():
    """Fingerprints and executions are pure functions of the choice string: a sample of paths of every
    explorer scenario is fingerprinted in two separate processes (different heap layouts, different
    hash seeds) and the outputs are compared."""
    import os
    import subprocess
    outs = []
    for hs in ("0", "7"):
        env = dict(os.environ, PYTHONHASHSEED=hs)
        r = subprocess.run([sys.executable, "-m", "pvmc.fpcheck"], capture_output=True, text=True, env=env,
                           cwd=os.path.dirname(os.path.dirname(os.path.abspath(__file__))))
        assert r.returncode == 0, r.stderr[-500:]
        outs.append(r.stdout.splitlines())
    assert len(outs[0]) == len(outs[1]) and len(outs[0]) > 500, (len(outs[0]), len(outs[1]))
    bad = [(a, b) for a, b in zip(outs[0], outs[1]) if a != b]
    assert not bad, f"fingerprint differs between processes: {bad[0]}"
    return len(outs[0])


def main():
    ok = True
    for name, fn in (("ref", test_ref), ("transport", test_transport), ("determinism", test_determinism),
                     ("fingerprints", test_fingerprints)):
        try:
            n = fn()
            print(f"selftest {name}: ok ({n} cases)")
        except AssertionError as e:
            ok = False
            print(f"selftest {name}: FAILED: {e}")
    return 0 if ok else 1


if __name__ == "__main__":
    sys.exit(main())
