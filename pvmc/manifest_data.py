"""Source of MANIFEST.json (regenerate with: /venv/bin/python -m pvmc.manifest_data)."""
import json
import os

ROOT = os.path.dirname(os.path.dirname(os.path.abspath(__file__)))

TB = ("Trusted: CPython 3.12.1 asyncio used unmodified; pvmc.vloop.VLoop (virtual clock, turn stepping); "
      "pvmc.simnet (transport contract, checked against loopback TCP by the selftest); the spec-derived "
      "reference codec pvmc/ref (checked against the hex examples printed in the vendor PDFs); the oracle "
      "of the property. Bounds actually completed are written to the evidence file on every run.")

CHECKS = {
    "C07": dict(
        level="model_checking", design="DESIGN.md §6 C07, §3",
        text="Every fault script up to the depth/deviation staircase (quick 5/0,4/1,3/2; thorough 8/0,6/1,5/2) "
             "over {accept, refuse, EOF, reset, garbage, bad CRC, truncated+EOF, write error, send, three kinds of "
             "unencodable send, raising subscribers, timer ticks} is executed on the real AirTouchSocket (AT4 and AT5 "
             "registries) under the virtual loop; invariants (single connection, no abandoned connection) hold at every "
             "turn boundary and the recovery oracle (connected within 2 s, probe frame delivered, probe command written, "
             "no unhandled exception, bounded task set) is run from every quiescent state reached.",
        technique="explicit-state BFS over real executions (stateless replay, deviation-bounded, fingerprint de-duplication)"),
}

CHECKS["C01"] = dict(
    level="model_checking", design="DESIGN.md §6 C01",
    text="All interleavings (depth 8/1 deviation quick, 10/2 thorough) of send calls (6 pairwise distinct messages, three retry "
         "policies, each call its own task), connect accept/refuse, peer EOF, pause/resume of the transport, timer ticks and "
         "0.5 s clock advances on the real AirTouchSocket; after every action the bytes of every connection are split by the "
         "reference framer and compared with a FIFO reference model (nothing unsubmitted, exactly once, acceptance order, "
         "within lifetime, written at max(accept, connect), packet ids consecutive mod 256, no residue); liveness judged at "
         "every quiescent state. Plus linear families: k=1..10 queued during an outage, 300 sends with an outage around the "
         "packet-id wrap.",
    technique="explicit-state BFS over real executions against a FIFO reference model")

CHECKS["C02"] = dict(
    level="model_checking", design="DESIGN.md §6 C02",
    text="All placements (depth 7/1 quick; 10/1 and 8/2 thorough) of write faults at each of the three chunks of a frame, "
         "peer resets, refusals, accepts and connections whose first write fails, against sends with each retry policy, "
         "with the clock advanced to the timed-automaton corners (e-eps, e, e+eps) of every pending expiry; monitor: on-wire "
         "attempts <= 1+retries, every attempt strictly before accept+lifetime, the command that failed once is the first "
         "frame on the next connection, and after the network behaves nothing owed is missing. API part: every public command "
         "of both generations and the internal senders with accumulate-on-repeat arguments, each under six fault scripts (1/2/3 "
         "failed writes, link down 0.5 s / 1+eps / 31 s at submit): commands whose reference reading accumulates on repetition "
         "at most once on the wire, others at most three times, none after 30 s, a transiently failed idempotent command is the "
         "first frame of the next connection; a heartbeat request on a dead link is not transmitted later than 1 s.",
    technique="explicit-state BFS over real executions with fault injection and clock-region corners; exhaustive command x fault-script enumeration")
CHECKS["C15"] = dict(
    level="model_checking", design="DESIGN.md §6 C15",
    text="shutdown() injected at every turn boundary of four backbone histories (handshake + heartbeat + AT4 poll, refused "
         "connect + back-off, commands pending while down, EOF + reconnect + refresh) of the real AirTouch4/5 objects against "
         "the simulated console (thorough: additionally free BFS depth 9/1, 7/2); then 1000 s idle on an accepting network and "
         "a re-init against a different installation. Oracle: after shutdown() returned no connect attempt, no write, no "
         "connected=True notification, no task or timer left, commands raise NotOpenError, every connection closed by the "
         "client, re-init rebuilds the model from scratch.",
    technique="explicit-state BFS over real executions; shutdown as the only deviation, at every turn boundary")
CHECKS["C16"] = dict(
    level="model_checking", design="DESIGN.md §6 C16",
    text="All histories (up to 12 sends with lifetimes 1 s/30 s, clock advanced to the corners of pending expiries, final "
         "accept) on a socket whose link is down, compared after every step with a reference list: overflow iff ten "
         "unexpired entries are held, held entries untouched by an overflow, exactly the unexpired held ones transmitted in "
         "order after connecting; send before open / after close raises NotOpenError and holds nothing.",
    technique="explicit-state BFS over operation histories against a reference list model")

CHECKS["C08"] = dict(
    level="model_checking", design="DESIGN.md §6 C08",
    text="Every answer pattern over N heartbeats (quick 2, thorough 3-4) where each version request is answered now, at "
         "request+30-eps/+30/+30+eps, just before the next heartbeat, just before/at the model deadline, or never; plus "
         "unsolicited version messages, status and non-version extended frames (must not count) and link loss; on the full "
         "AirTouch4/5 objects (300/330 s) and on HeartbeatManager with (10,15) and (10,10.5). Timed monitor: requests exactly "
         "on the interval grid while connected; a client close + reconnect exactly when (now - max(start, last response, last "
         "expiry)) reaches the timeout; no client-initiated close otherwise.",
    technique="explicit-state BFS over real executions with clock-region corners against a timed reference monitor")

CHECKS["C09"] = dict(
    level="model_checking", design="DESIGN.md §6 C09",
    text="Real init() of AirTouch4/5 against the simulated console for every installation with up to 3 ACs x 5 zones (quick; "
         "4 x 6 thorough) and every zone-to-AC assignment expressible in the format (AT4 bitmap: arbitrary; AT4 old format and "
         "AT5: contiguous), structured families to 16 zones, nonsense start/count, AT5 zero zones; answers whole and byte by "
         "byte; one or two extra frames from 9 kinds before the answer of each of the six steps; silence at each step; connect "
         "latency around 5 s and 1-3 refusals. Oracle: six requests in the fixed order one at a time, True at the time of the "
         "last answer, model equals the installation; silent console: False at exactly 5 s, no exception, no hang.",
    technique="exhaustive enumeration of console behaviours (configurations x interleaved frames x silence points), one real execution each")
CHECKS["C10"] = dict(
    level="model_checking", design="DESIGN.md §6 C10",
    text="Every defined power x mode x fan x flag combination, every raw set-point, temperatures across the raw range, timers, "
         "error code x text and version strings are sent as status frames to a real initialised client and every public getter "
         "is compared with the reference view; plus all frame histories of length <= 3 (4 thorough) over a 13-frame menu "
         "(two entities, repeats, partial frames, unknown ids, text before/after its code).",
    technique="exhaustive enumeration of frame histories up to a depth against a latest-record reference model")
CHECKS["C12"] = dict(
    level="model_checking", design="DESIGN.md §6 C12",
    text="All event histories of length <= 3 (4 thorough) over 14 events (changed/identical AC, zone, all-zones, timer, error "
         "text and version frames; subscribe twice; unsubscribe; subscribers start raising), in both sibling orders, with 9 "
         "subscribers on the AirTouch, two ACs and two zones. After each frame: must-be-called (exposed attribute changed), "
         "must-not-be-called (identical repeat), right identifier, twins equal, unsubscribed silent, model still updated.",
    technique="exhaustive enumeration of event histories up to a depth against a reference diff model")

CHECKS["C14"] = dict(
    level="model_checking", design="DESIGN.md §6 C14",
    text="After a real init(): all histories (depth 6 quick, 8 thorough) of link loss (EOF, reset), console state edits while "
         "disconnected, outage lengths (immediate, one refusal, 10/31/400 s), timer ticks, and for AT4 unsolicited group "
         "status, a console that stops answering group status, non-group frames and a 100 s offset. Oracle at every quiescent "
         "state: AC-status and zone-status requests at the instant of every post-init connection, getters equal the console "
         "state, AT4 group status requested exactly at last-group-status + 300 s (and every 300 s while silent), never "
         "otherwise, no zone poll on AT5; then a refresh with unchanged data notifies nobody.",
    technique="explicit-state BFS over real executions against a reference view and a timed poll model")
CHECKS["C04"] = dict(
    level="exploration", design="DESIGN.md §6 C04",
    text="Every public control call of both generations (AC 0..3 / 0..15, zones 0..15, every enum argument, temperatures "
         "0.00..45.00 step 0.05, damper 0..100, quick timers 0..47 h x {0,1,30,59} min, times of day, update check) under four "
         "ability configurations is issued on a real initialised client; the frame that reaches the console is read by the "
         "spec-derived reference codec and must address the right entity, change exactly the requested attribute, keep every "
         "other, be addressed 0x80/0x90 <- 0xB0 with a correct CRC.",
    technique="exhaustive enumeration of API calls over finite argument domains against an independent reference decoder")
CHECKS["C11"] = dict(
    level="exploration", design="DESIGN.md §6 C11",
    text="All 2^5 x 2^7 (AT4) / 2^5 x 2^8 (AT5) ability bitmaps (thorough; quick: every mode bitmap x 4 fan bitmaps and every "
         "fan bitmap x 4 mode bitmaps) x every mode, fan and power argument; AC set-points -5.00..50.00 step 0.05 under every "
         "mode-dependent limit pair; zone damper -5..105, zone set-points with/without sensor, zone power with/without turbo "
         "support; set/clear of each quick timer for all 16 reported (on, off) pairs. Refusals must raise ValueError and "
         "write zero bytes; accepted calls produce exactly one correctly shaped frame, rounded to the resolution and clamped; "
         "the other timer is exactly as last reported.",
    technique="exhaustive enumeration of API calls x configurations against an independent reference decoder")

CHECKS["C03"] = dict(
    level="exploration", design="DESIGN.md §6 C03",
    text="All 36 message/request classes (18 per generation) inside their 0x1F/0xC0 wrappers are enumerated over their protocol "
         "domains (full products for the control records; every field over its whole domain x base records, record counts "
         "0..16, ASCII and 2/3/4-byte UTF-8 names otherwise; packet ids run through all 256 values) and pushed through the real "
         "send path of one socket, framed by the reference framer (announced length, CRC, AT5 outer length), fed into the real "
         "receive path of a second socket and compared with what was sent; size() computed in advance must equal the bytes "
         "produced, for the wrapper and the nested sub-message.",
    technique="exhaustive enumeration of message values through the real send/receive pair with an independent framer in between")
CHECKS["C05"] = dict(
    level="exploration", design="DESIGN.md §6 C05",
    text="For the six status record layouts: every byte over 0..255 on three base records, every adjacent byte pair over all "
         "65536 values, record counts 0..16, AT5 strides from below the layout to +8; for ability/names/error/version answers: "
         "every byte of the ability record, following-length 0..39, 1..4 records, every group bitmap bit, strings incl. multi-byte "
         "and invalid UTF-8, wrong lengths. Each payload is decoded through the registry's wrapper decoders and compared field by "
         "field with the spec-derived reference reading (value / not-available / unspecified); malformed payloads must not be "
         "decoded to a different reading; fully defined records must not be rejected.",
    technique="exhaustive enumeration of payload bytes (per field and per adjacent byte pair) against a spec-derived reference decoder")
CHECKS["C06"] = dict(
    level="model_checking", design="DESIGN.md §6 C06",
    text="Part A: the CRC register is a 65536-state machine; all 1-, 2- and 3-byte strings (16.8 M calls of calculate()) are "
         "compared with a bit-by-bit CRC-16/MODBUS, which exercises every (register, byte) transition; validate() on the same "
         "sets; single-position sweeps to length 64. Part B: for 16 frame kinds every single-bit, double-bit and burst error "
         "(<= 4 bits quick, <= 8/16 thorough) over covered and check bytes must fail validate(); every single-bit and burst-corner "
         "corruption is fed to a real socket followed by intact probes: nothing delivered for it, old connection closed by the "
         "client, new one opened, a later probe delivered.",
    technique="explicit-state exhaustion of the CRC automaton + exhaustive fault enumeration on the real receive path")

CHECKS["C13"] = dict(
    level="model_checking", design="DESIGN.md §6 C13",
    text="Three streams per generation (1-3 frames, incl. an empty payload and a zero-record status) are delivered to the real "
         "receive path under every segmentation with <= 2 cuts (quick; <= 3 thorough) at every byte position, with and without a "
         "loop turn between segments, plus byte-by-byte delivery; the delivered (header, message) sequence must equal the "
         "unsegmented run and the reference parse, on a single connection.",
    technique="exhaustive enumeration of segmentations (cut positions x turn placement) on the real stream reader loop")
CHECKS["C17"] = dict(
    level="exploration", design="DESIGN.md §6 C17",
    text="Through the real receive path: every type byte x 5 payload lengths, extended sub-ids (all 65536 thorough; six 128-wide "
         "windows quick), every 0xC0 sub-type x 8 sub-header shapes, AT5 strides size..size+8, and for 16 frame kinds every byte "
         "position set to every value with the CRC recomputed, every truncation point followed by EOF or by an intact frame, and "
         "pairs of corrupted copies. Unknown kinds must arrive as unsupported messages with the payload unchanged and no reset; "
         "frames with a defined vendor reading must be delivered as exactly that reading or not at all; anything else must be "
         "survived (no unhandled exception; an intact frame is delivered after at most one re-connection).",
    technique="exhaustive enumeration of input bytes on the real receive path against a spec-derived reference decoder")
CHECKS["C18"] = dict(
    level="model_checking", design="DESIGN.md §6 C18",
    text="Real AirTouchDiscoverer.search() for both generations and pyairtouch.discover() on the virtual loop with a simulated "
         "datagram endpoint: every datagram of a token grammar (0..5 comma separated fields over 8 tokens incl. invalid UTF-8; "
         "6 thorough), and every placement of 2 (3 thorough) datagrams from a pool (valid, second console, duplicate, request "
         "echo, wrong arity, other generation) at 12 corner instants around the three request times, in both tie orders, "
         "broadcast and unicast. Oracle: documented request bytes and address, requests at 0/0.5/1.0 s only and none after an "
         "interval with a valid answer, return by 1.5 s, result = reference-parsed valid datagrams without duplicates, clients with "
         "the right model/port, endpoint closed.",
    technique="exhaustive enumeration of datagram contents and arrival schedules on the real search loop")

CHECKS["C19"] = dict(
    level="model_checking", design="DESIGN.md §6 C19",
    text="An AirTouch 4 client and an AirTouch 5 client are driven side by side against two simulated consoles built from one "
         "abstract installation and state (common domain). All joint histories of length <= 3 (4 thorough) over 13 abstract "
         "events (status changes, commands incl. one that must be refused, reconnect), two installation variants, plus the "
         "single-step cross products of status values and of every common command argument. Relational oracle: equal public "
         "attributes (documented differences whitelisted), same accept/reject, equal normalised reference reading of every "
         "accepted command.",
    technique="exhaustive enumeration of joint histories with a relational (differential) oracle between the two implementations")

# what the checks grew after the texts above were written (rounds of seeded changes, DESIGN.md §8): appended to the text
ADDED = {
    "C01": "Also: back-pressure (a stream stalled at open or later, released once; a closed stream lingering on unsent bytes), "
           "the same message submitted repeatedly under mixed policies, families up to 13 sends in one outage (refused sends "
           "stay refused), and a message accepted on an open connection with nothing ahead of it goes to the transport at once.",
    "C02": "Also: stalled streams with expiry corners, policy objects shared per client as the library's callers share them, six "
           "commands with one failure each in one session, the AirTouch 4 group status poll on a dead link.",
    "C03": "Thorough adds the full products of fields that share a wire byte.",
    "C04": "Also: the same calls while the link is down, all 3-sequences of five calls (incl. two timer commands) inside one "
           "outage, concurrently on a live link, and concurrently on a stalled link (whose transport keeps references to the "
           "buffers it was given).",
    "C05": "Also: the single-byte sweep repeated with the library's loggers at DEBUG; decoder history independence (all triples "
           "over valid / rejected / other-stride payloads per layout against a brand-new registry; across layouts against the "
           "reference, every first-use order of a stride); a names payload decodes to its own entries only.",
    "C06": "Also: bursts enumerated in the code's own bit order; the damaged copy of a frame right after the intact one; the "
           "message callback subscribed twice.",
    "C07": "Also: failed connects and link errors that are not ConnectionErrors, an AttributeError-raising message, a client whose "
           "connection subscriber does not send, eight backbone scripts (stalled stream given up and lingering in close(), stale "
           "retry during a lingering close, reset while the read task is parked inside a frame) with every event at every turn "
           "boundary; a closed stream lingering on unsent bytes counts as held; the probe command must be exactly its own frame; a message subscriber that fails 0/1/2 loop iterations after the frame next to a sibling whose reaction hits a write error, both sibling orders; "
           "the library's own 'Unhandled exception in background task' report counts as an unhandled exception.",
    "C08": "Also: API initialised late (console unreachable when init() is called), outage longer than the timeout, idling to "
           "the horizon when no timer is armed, and scripted cases of a silent AND stalled link whose close lingers 1-100 s after "
           "the heartbeat reset; a second life of the same object (init, 100 s, shutdown, init) monitored from its own start.",
    "C09": "Also: console reachable late, every attempt slow (9 latencies), failed attempts of five kinds, re-connection storm cut "
           "off after 40 connections inside one handshake.",
    "C10": "Also: every history as one segment, all walks over the reported modes, re-init of the same object with the "
           "installation changed meanwhile, a zone-less AC, an AC in error at connect, two clients of one generation side by side.",
    "C11": "Also: a timer command lost in an outage, AC status (timer flag both ways) between timer report and calls, a status "
           "reporting an unadvertised mode/fan, sensor / turbo flags reported the other way round on the same zone objects.",
    "C12": "Also: one callable in both AC subscriber sets, slow subscribers, API commands answered by the console, families of "
           "related events at depth 4-5 (error code / text with lost replies and a write fault; timers), installations whose AC numbers "
           "have a gap or do not start at 0.",
    "C13": "Also: the client transmits between segments, 1-299 s of silence between segments, streams with a damaged frame, and a subscriber that closes and re-opens the socket from inside the message callback before more frames arrive on the new connection.",
    "C14": "Also: silent console, accepted connection whose first write fails, link error loss, ten commands during the outage, a "
           "status volunteered mid-reaction, 700 s muted / silent phases and 1000 s of healthy idle time after every script, and "
           "the socket scenario of C07 explored under one clause (the last notification says connected and belongs to the live "
           "connection), and a scripted grid in which the poll deadline falls inside an outage with up to a full retry queue "
           "buffered just before it.",
    "C15": "Also: seven backbones (write errors, heartbeat and command parked behind a stalled stream), residual tasks/timers judged "
           "at the instant shutdown() returns, second life compared with a fresh object's over 700 s, init() again the moment "
           "shutdown() has returned and inside the same application task.",
    "C16": "Also: stalled final phase, send at every turn boundary of close(), stalled link dying with parked writers, ten sends "
           "from the disconnected notification after a half-open write failure, back-off window with no attempt in flight, two "
           "clients side by side (run first).",
    "C17": "Unchanged in scope; runs on the strengthened transport and console models.",
    "C18": "Also: discover() with one answer per generation at all 13x13 pairs of instants, a renamed console, a datagram with the "
           "marker but no text.",
    "C19": "Also: a control-method change the consoles never report, init() with the link dropped at each of the six steps, six "
           "commands during outages of 0.5-31 s, an installation already in error at connect, shutdown() + init() of both clients "
           "as an event of the joint histories.",
}
for _pid, _txt in ADDED.items():
    CHECKS[_pid]["text"] = CHECKS[_pid]["text"].rstrip() + " " + _txt

NOT_YET = {}


def build():
    checks = []
    for pid in sorted(CHECKS):
        c = CHECKS[pid]
        checks.append({
            "property_id": pid,
            "quick_cmd": f"./check {pid} --tier quick",
            "thorough_cmd": f"./check {pid} --tier thorough",
            "evidence_file": f"/verif/evidence/{pid}.json",
            "replay_cmd_template": f"./check {pid} --replay {{path}}",
            "engine": "pvmc",
            "level_claimed": {"category": c["level"], "text": c["text"], "design_ref": c["design"]},
            "level_note": c.get("note", TB),
            "technique": c["technique"],
        })
    props = [json.loads(l)["id"] for l in open(os.path.join(ROOT, "properties.jsonl"))]
    na = [{"property_id": p, "reason": NOT_YET.get(p, "check not built yet in this session (work in progress; "
           "DESIGN.md §6 describes the planned bounded exhaustive check)")} for p in props if p not in CHECKS]
    return {
        "version": 1,
        "setup_cmd": "./check selftest",
        "hooks": {
            "guard": "PYAIRTOUCH_VERIF",
            "enable": "no source hooks are needed: checks import /repo's working tree directly "
                      "(/venv/bin/python, pyairtouch.pth); VERIF_REPO=<dir> selects another tree",
            "baseline_off_cmd": "cd /repo && /venv/bin/python -m pytest -ra -q -p no:cacheprovider --timeout=900 "
                                "--continue-on-collection-errors",
            "source_commits": [],
            "add_only": True,
        },
        "engines": [{"name": "pvmc", "path": "/verif/pvmc", "serves_properties": sorted(CHECKS),
                     "kind_free_text": "hand-written explicit-state explorer over real executions of the library on "
                                       "a virtual asyncio loop + exhaustive input enumerator against a spec-derived "
                                       "reference codec"}],
        "checks": checks,
        "not_applicable": na,
        "notes": "See DESIGN.md. Exit 0 = held on everything explored; exit 1 + VIOLATION line = violation; "
                 "exit 2 + HARNESS-ERROR = machinery inconsistency (never a verdict).",
    }


if __name__ == "__main__":
    json.dump(build(), open(os.path.join(ROOT, "MANIFEST.json"), "w"), indent=1)
    print("MANIFEST.json written:", len(build()["checks"]), "checks")
