"""Stateless, deviation-bounded, de-duplicating explorer over real executions (DESIGN §3).

A *scenario* class builds real library objects on a fresh VLoop and exposes

    enabled()      -> list of JSON-serialisable actions (deterministic order)
    kind(action)   -> 'run' | 'tick' | 'env'      ('env' = environment / driver event)
    do(action)
    step_check()   -> None | violation dict   (invariant, evaluated after every action)
    quiescent()    -> bool
    fingerprint()  -> str
    finish()       -> None | violation dict   (destructive end-of-script oracle)
    outcome()      -> str                     (digest of what was observed; for the
                                               'distinct outcomes' vacuity counter)

An execution is a pure function of its action list (the *choice string*); states are
never copied, every node is reached by replaying its path on a fresh world.

Bounds: ``depth`` = max number of 'env' actions; ``max_dev`` = max number of *deviations*
(an 'env' action taken while 'run' is enabled, i.e. an event landing mid-reaction).
Search is level-synchronous BFS, one action per level, so counterexamples are shortest
first.  ``seen`` maps fingerprint -> Pareto set of (deviations used, events used).
"""
from __future__ import annotations

import collections
import gc
import importlib
import json
import multiprocessing as mp
import os
import random
import time


class HarnessError(Exception):
    pass


def _load(spec):
    mod, _, cls = spec.partition(":")
    return getattr(importlib.import_module(mod), cls)


_EXEC_COUNT = 0


def new_world(spec, params):
    global _EXEC_COUNT
    _EXEC_COUNT += 1
    if _EXEC_COUNT % 400 == 0:
        gc.collect()
    return _load(spec)(params)


def replay(spec, params, path, check_enabled=True):
    """Replay a choice string; returns (world, first_violation_or_None, index)."""
    w = new_world(spec, params)
    v = w.step_check()
    if v:
        return w, v, -1
    for i, a in enumerate(path):
        a = _tup(a)
        if check_enabled and a not in w.enabled():
            raise HarnessError(f"replay divergence at step {i}: {a!r} not enabled; enabled={w.enabled()!r}")
        w.do(a)
        v = w.step_check()
        if v:
            return w, v, i
    return w, None, len(path)


def _tup(a):
    if isinstance(a, list):
        return tuple(_tup(x) for x in a)
    return a


def _expand(job):
    spec, params, path, ev, dv, depth, max_dev, do_finish = job
    try:
        w, v, _ = replay(spec, params, path, check_enabled=False)
        if v:
            raise HarnessError(f"prefix already violating: {v}")
        acts = w.enabled()
        run_enabled = any(w.kind(a) == "run" for a in acts)
        kinds = {a: w.kind(a) for a in acts}
        del w
        out = []
        nexec = 1
        for a in acts:
            k = kinds[a]
            nev, ndv = ev, dv
            if k == "env":
                nev += 1
                if nev > depth:
                    continue
                if run_enabled:
                    ndv += 1
                    if ndv > max_dev:
                        continue
            w2 = new_world(spec, params)
            for b in path:
                w2.do(b)
            w2.do(a)
            nexec += 1
            viol = w2.step_check()
            fp = w2.fingerprint()
            q = w2.quiescent()
            fv = None
            outcome = w2.outcome()
            if viol is None and do_finish and q:
                fv = w2.finish()
                outcome = w2.outcome()
            out.append((a, k, nev, ndv, fp, viol, q, fv, outcome))
            del w2
        return ("ok", path, out, nexec)
    except HarnessError as e:
        return ("harness", path, str(e), 0)
    except Exception as e:  # noqa: BLE001
        import traceback
        return ("harness", path, "".join(traceback.format_exception(e)), 0)


def _init_worker():
    gc.disable()
    import logging
    import warnings
    logging.disable(logging.CRITICAL)
    warnings.simplefilter("ignore")
    import sys
    sys.unraisablehook = lambda *a: None   # abandoned worlds hold pending coroutines; silence teardown noise


class Result:
    def __init__(self):
        self.states = 0
        self.transitions = 0
        self.executions = 0
        self.max_path = 0
        self.levels = 0
        self.violations = {}      # signature -> (path, violation dict)
        self.violation_count = 0
        self.outcomes = collections.Counter()
        self.kinds = collections.Counter()
        self.caps_hit = []
        self.complete = True
        self.fixpoint = False
        self.quiescent_states = 0
        self.samples = []
        self.wall = 0.0

    def merge(self, other):
        self.states += other.states
        self.transitions += other.transitions
        self.executions += other.executions
        self.max_path = max(self.max_path, other.max_path)
        self.levels = max(self.levels, other.levels)
        for s, pv in other.violations.items():
            if s not in self.violations or len(pv[0]) < len(self.violations[s][0]):
                self.violations[s] = pv
        self.violation_count += other.violation_count
        self.outcomes.update(other.outcomes)
        self.kinds.update(other.kinds)
        self.caps_hit += other.caps_hit
        self.complete = self.complete and other.complete
        self.quiescent_states += other.quiescent_states
        self.samples += other.samples
        self.wall += other.wall


_POOL = None


def pool(workers=None):
    global _POOL
    if _POOL is None:
        n = workers or int(os.environ.get("VERIF_WORKERS", "0")) or min(16, os.cpu_count() or 1)
        ctx = mp.get_context("fork")
        _POOL = ctx.Pool(n, initializer=_init_worker)
    return _POOL


def close_pool():
    global _POOL
    if _POOL is not None:
        _POOL.terminate()
        _POOL.join()
        _POOL = None


def explore(spec, params, depth, max_dev, *, do_finish=True, dedup=True, time_cap=None,
            seed=0, label=None, max_levels=100000, stop_on_violation=False, parallel=True):
    """BFS over choice strings.  Returns a Result."""
    t0 = time.time()
    res = Result()
    rng = random.Random(seed)
    seen = {}
    frontier = [((), 0, 0)]
    # root
    w, v, _ = replay(spec, params, ())
    res.executions += 1
    if v:
        res.violations[v.get("signature", v["clause"])] = ((), v)
        res.violation_count += 1
        res.wall = time.time() - t0
        return res
    seen[w.fingerprint()] = [(0, 0)]
    res.states = 1
    del w
    level = 0
    while frontier and level < max_levels:
        level += 1
        rng.shuffle(frontier)
        jobs = [(spec, params, p, ev, dv, depth, max_dev, do_finish) for (p, ev, dv) in frontier]
        if parallel and len(jobs) > 8:
            cs = max(1, min(64, len(jobs) // 64))
            results = pool().map(_expand, jobs, chunksize=cs)
        else:
            results = [_expand(j) for j in jobs]
        children = []
        for r in results:
            if r[0] == "harness":
                raise HarnessError(f"{label or spec}: path={list(r[1])!r}: {r[2]}")
            _, path, out, nexec = r
            res.executions += nexec
            for (a, k, nev, ndv, fp, viol, q, fv, outcome) in out:
                res.transitions += 1
                res.kinds[k] += 1
                children.append((ndv, nev, path + (a,), fp, viol, q, fv, outcome))
        # deterministic, order independent insertion: cheapest (dv, ev) first
        children.sort(key=lambda c: (c[0], c[1], json.dumps(c[2])))
        nxt = []
        for (ndv, nev, path, fp, viol, q, fv, outcome) in children:
            bad = viol or fv
            if bad:
                res.violation_count += 1
                sig = bad.get("signature") or bad["clause"]
                if sig not in res.violations or len(path) < len(res.violations[sig][0]):
                    res.violations[sig] = (path, bad)
            if dedup:
                prev = seen.get(fp)
                if prev is not None and any(pd <= ndv and pe <= nev for pd, pe in prev):
                    continue
                seen.setdefault(fp, []).append((ndv, nev))
            res.states += 1
            res.max_path = max(res.max_path, len(path))
            if q:
                res.quiescent_states += 1
                res.outcomes[outcome] += 1
            if viol:
                continue  # invariant broken: absorbing, do not expand further
            nxt.append((path, nev, ndv))
        if len(res.samples) < 3 and children:
            res.samples.append(list(children[rng.randrange(len(children))][2]))
        frontier = nxt
        res.levels = level
        if stop_on_violation and res.violations:
            res.complete = False
            res.caps_hit.append("stopped at first violating level")
            break
        if time_cap is not None and time.time() - t0 > time_cap and frontier:
            res.complete = False
            res.caps_hit.append(
                f"{label or spec}: time cap {time_cap}s hit after level {level} "
                f"(frontier {len(frontier)} unexpanded)")
            break
    if not frontier:
        res.fixpoint = True
    res.wall = time.time() - t0
    return res


def audit(spec, params, depth, max_dev, *, seed=0, limit=20000, do_finish=True):
    """Audit mode (DESIGN §3.4): explore without de-duplication and check that two paths with
    equal fingerprints (and equal remaining budgets) have equal *futures*: the same enabled actions,
    the same fingerprints after each of them, and the same oracle verdicts (invariant and, at
    quiescent states, the end-of-script oracle).  Returns (classes, pairs_checked, mismatches)."""
    by_fp = collections.defaultdict(list)
    frontier = [((), 0, 0)]
    n = 0
    while frontier and n < limit:
        nxt = []
        for (p, ev, dv) in frontier:
            r = _expand((spec, params, p, ev, dv, depth, max_dev, do_finish))
            if r[0] == "harness":
                raise HarnessError(r[2])
            succ = tuple(sorted((json.dumps(a), fp, (viol or {}).get("clause"), (fv or {}).get("clause"))
                                for (a, k, nev, ndv, fp, viol, q, fv, o) in r[2]))
            w, _, _ = replay(spec, params, p, check_enabled=False)
            by_fp[(w.fingerprint(), depth - ev, max_dev - dv)].append((p, succ))
            n += 1
            for (a, k, nev, ndv, fp, viol, q, fv, o) in r[2]:
                if not viol:
                    nxt.append((p + (a,), nev, ndv))
            if n >= limit:
                break
        frontier = nxt
    pairs = 0
    mismatches = []
    for key, lst in by_fp.items():
        base = lst[0]
        for other in lst[1:]:
            pairs += 1
            if other[1] != base[1]:
                mismatches.append((key[0], list(base[0]), list(other[0])))
    return len(by_fp), pairs, mismatches
