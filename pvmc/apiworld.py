"""World with a full AirTouch4/5 API object talking to a SimConsole."""
from __future__ import annotations

import asyncio

from . import console as cons
from . import worlds


def model_enum(gen):
    import pyairtouch
    return pyairtouch.AirTouchModel.AIRTOUCH_4 if gen == 4 else pyairtouch.AirTouchModel.AIRTOUCH_5


class ApiWorld(worlds.World):
    def __init__(self, gen, inst=None, state=None, auto=True, net_auto="accept"):
        super().__init__()
        import pyairtouch
        self.gen = gen
        worlds.fresh_registry(gen)
        self.inst = inst if inst is not None else cons.default_installation(gen)
        self.console = cons.SimConsole(self.net, self.inst, state, auto=auto)
        self.net.auto = net_auto
        self.at = pyairtouch.connect(model_enum(gen), "console", 9004 if gen == 4 else 9005)
        self.roots = [self.at]
        self.init_result = []
        self.calls = []

    # -- drivers ---------------------------------------------------------------------------------
    def start_init(self):
        async def drv():
            try:
                r = await self.at.init()
                self.init_result.append(("returned", r, self.loop.time()))
            except Exception as e:  # noqa: BLE001
                self.init_result.append(("raised", type(e).__name__, self.loop.time()))
        return self.spawn(drv())

    def init_now(self, horizon=6.0):
        """Run init() to completion against an auto-answering console."""
        self.start_init()
        self.loop.run_until(self.loop.time() + horizon)
        return self.init_result[-1] if self.init_result else None

    def call(self, coro_fn, label=None):
        """Start an API call as its own task; returns a record updated when it finishes."""
        rec = {"label": label, "t": self.loop.time(), "status": "pending"}
        self.calls.append(rec)

        async def drv():
            try:
                await coro_fn()
                rec["status"] = "returned"
            except ValueError as e:
                rec["status"] = "ValueError"
                rec["msg"] = str(e)
            except Exception as e:  # noqa: BLE001
                rec["status"] = "raised:" + type(e).__name__
                rec["msg"] = str(e)
        self.spawn(drv())
        return rec

    def call_sync(self, coro_fn, label=None):
        rec = self.call(coro_fn, label)
        self.loop.settle()
        return rec

    def client_frames(self, since=0):
        """Frames the console has received (reference-framed): list of (time, cid, kind, frame)."""
        return self.console.requests[since:]

    def tasks(self):
        return asyncio.all_tasks(self.loop)
