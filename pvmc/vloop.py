"""Virtual asyncio event loop: no selector, virtual clock, stepped by *turns*.

One turn reproduces one iteration of ``BaseEventLoop._run_once``: timers whose
deadline has passed are moved to the ready queue, then exactly the handles that
were ready at that moment are run; handles scheduled during the turn wait for
the next turn (identical to CPython 3.12).

The I/O seams are ``create_connection`` and ``create_datagram_endpoint`` which
are forwarded to ``loop.net`` (see simnet.py).  Everything else (tasks,
futures, streams, timeouts, sleep, wait_for) is stock asyncio.
"""
from __future__ import annotations

import heapq
from asyncio import base_events, events

EPS = 2.0 ** -10  # exactly representable time quantum used for corner points


class VLoop(base_events.BaseEventLoop):
    def __init__(self):
        super().__init__()
        self._vtime = 0.0
        self.net = None
        self.exc_reports: list[str] = []
        self.turns = 0
        self.set_exception_handler(self._on_exception)

    # -- things BaseEventLoop expects from a concrete loop -------------------------------
    def time(self):
        return self._vtime

    def _process_events(self, event_list):  # pragma: no cover - never called
        pass

    def _write_to_self(self):
        pass

    def _on_exception(self, loop, context):
        exc = context.get("exception")
        self.exc_reports.append(
            f"{context.get('message')} :: {type(exc).__name__ if exc is not None else None}: {exc}"
        )

    # -- stepping ---------------------------------------------------------------------------
    def _drop_cancelled_head(self):
        while self._scheduled and self._scheduled[0]._cancelled:
            h = heapq.heappop(self._scheduled)
            h._scheduled = False

    def due(self):
        """Move timers whose deadline has been reached to the ready queue."""
        self._drop_cancelled_head()
        while self._scheduled and self._scheduled[0]._when <= self._vtime:
            h = heapq.heappop(self._scheduled)
            h._scheduled = False
            if not h._cancelled:
                self._ready.append(h)
            self._drop_cancelled_head()

    def has_ready(self):
        self.due()
        return any(not h._cancelled for h in self._ready)

    def turn(self):
        """One iteration of the event loop."""
        if events._get_running_loop() is not self:
            # several worlds may coexist (C19 drives two clients side by side): get_running_loop()
            # must answer with the loop whose handles are running
            events._set_running_loop(None)
            events._set_running_loop(self)
        self.due()
        self.turns += 1
        for _ in range(len(self._ready)):
            h = self._ready.popleft()
            if not h._cancelled:
                h._run()
        h = None

    def next_deadline(self):
        self._drop_cancelled_head()
        live = [h._when for h in self._scheduled if not h._cancelled]
        return min(live) if live else None

    def deadlines(self):
        return sorted({h._when for h in self._scheduled if not h._cancelled})

    def advance_to(self, t):
        """Advance the clock to ``t`` (never backwards); does not run anything."""
        if t > self._vtime:
            self._vtime = t

    def settle(self, limit=100000):
        """Run turns until the ready queue is empty (no clock movement)."""
        n = 0
        while self.has_ready():
            self.turn()
            n += 1
            if n > limit:
                raise RuntimeError("settle: livelock (ready queue never empties)")
        return n

    def run_until(self, horizon, on_turn=None, limit=1000000):
        """Run to quiescence, jumping the clock over idle gaps, until ``horizon``."""
        n = 0
        while True:
            while self.has_ready():
                self.turn()
                if on_turn:
                    on_turn()
                n += 1
                if n > limit:
                    raise RuntimeError("run_until: turn limit")
            nd = self.next_deadline()
            if nd is None or nd > horizon:
                break
            self.advance_to(nd)
        self.advance_to(horizon)
        while self.has_ready():
            self.turn()
            if on_turn:
                on_turn()

    # -- I/O seams --------------------------------------------------------------------------
    async def create_connection(self, protocol_factory, host=None, port=None, **kw):
        return await self.net.connect(self, protocol_factory, host, port)

    async def create_datagram_endpoint(self, protocol_factory, local_addr=None,
                                       remote_addr=None, **kw):
        return await self.net.datagram_endpoint(self, protocol_factory, kw.get("sock"))


def install(loop):
    """Make ``loop`` the running loop of this thread (get_running_loop() works)."""
    events._set_running_loop(None)
    events._set_running_loop(loop)


def uninstall():
    events._set_running_loop(None)
