"""Shared by C04 / C11 / C19 / C02-API: issue public API calls against a SimConsole and read the frames
that arrive with the reference codec; the *intent table* (DESIGN §4.3) says what each call must mean."""
from __future__ import annotations

import datetime

from .. import apiworld, console
from ..ref import at4, at5
from ..ref.at4 import KEEP

PC = {"TOGGLE": "toggle", "TURN_OFF": "off", "TURN_ON": "on", "SET_TO_AWAY": "away", "SET_TO_SLEEP": "sleep"}


def initialised(gen, inst, state=None):
    w = apiworld.ApiWorld(gen, inst, state, auto=True)
    r = w.init_now(0.0)
    if not (r and r[1] is True):
        raise RuntimeError(f"init failed: {r}")
    w.loop.settle()
    return w


def issue(w, coro_fn, label=None):
    """Run one API call to completion.  -> (record, [client frames received by the console since])."""
    n0 = len(w.console.requests)
    rec = w.call(coro_fn, label)
    w.loop.settle()
    frames = [r for r in w.console.requests[n0:]]
    return rec, frames


def envelope_problem(gen, fr, ext):
    """Addressing / checksum rules (statement of C04): to 0x80 (0x90 for extended) from 0xB0, good CRC."""
    if fr is None:
        return "stream could not be framed"
    want_to = 0x90 if ext else 0x80
    if fr.to != want_to or fr.frm != 0xB0:
        return f"addressed {fr.to:02x} <- {fr.frm:02x}, expected {want_to:02x} <- b0"
    if not fr.crc_ok:
        return "check bytes are not CRC-16/MODBUS of address..data"
    if gen == 5 and not fr.outer_ok:
        return "AT5 outer length wrong"
    return None


def read_command(gen, fr):
    """-> (kind, reading) of one client frame, by the reference codec."""
    if fr.typ == 0x1F:
        sub, p = at4.split_ext(fr.data)
        if sub == 0xFF30 and not p:
            return "version-request", {}
        if sub == (0xFF20 if gen == 4 else 0xFF49):
            return "quick-timer", at4.read_quick_timer(p)
        if sub == 0xFF10 and len(p) == 1:
            return "error-request", {"ac": p[0]}
        return f"ext-{sub:04x}", {"payload": p}
    if gen == 4:
        if fr.typ == 0x2A:
            return "zone-control", at4.read_group_control(fr.data)
        if fr.typ == 0x2C:
            return "ac-control", at4.read_ac_control(fr.data)
        if fr.typ == 0x36:
            return "timer-control", at4.read_timer_slots(fr.data)
        if fr.typ in (0x2B, 0x2D, 0x37) and not fr.data:
            return "status-request", {"typ": fr.typ}
        return f"type-{fr.typ:02x}", {}
    sub, normal, rl, rc, rest = at5.split_c0(fr.data)
    if sub == 0x20:
        recs = at5.read_zone_control(normal, rl, rc, rest)
        return "zone-control", recs[0] if len(recs) == 1 else {"multi": recs}
    if sub == 0x22:
        recs = at5.read_ac_control(normal, rl, rc, rest)
        return "ac-control", recs[0] if len(recs) == 1 else {"multi": recs}
    if sub == 0x32:
        return "timer-control", at5.read_timer_records(normal, rl, rc, rest)
    if sub in (0x21, 0x23, 0x33) and rc == 0:
        return "status-request", {"sub": sub}
    return f"c0-{sub:02x}", {}


# ---------------------------------------------------------------------------------------- intents
def ac_intent(ac, power=KEEP, mode=KEEP, fan=KEEP, setpoint=None):
    return {"ac": ac, "power": power, "mode": mode, "fan": fan,
            "setpoint_ctl": "set" if setpoint is not None else KEEP, "setpoint": setpoint}


def match_ac_control(gen, reading, intent):
    """-> problem string or None."""
    if "multi" in reading:
        return f"{len(reading['multi'])} records in one AC control message"
    for k in ("ac", "power", "mode", "fan", "setpoint_ctl"):
        if reading[k] != intent[k]:
            return f"{k}: frame says {reading[k]!r}, call means {intent[k]!r}"
    if intent["setpoint"] is not None:
        if abs(reading["setpoint"] - intent["setpoint"]) > 1e-9:
            return f"setpoint: frame says {reading['setpoint']!r}, call means {intent['setpoint']!r}"
    elif gen == 4 and reading["setpoint_raw"] != 0x3F:
        return f"set-point value field {reading['setpoint_raw']:#x} but the vendor text says 0x3f when the set-point is kept"
    if gen == 4 and reading.get("byte4", 0) != 0:
        return "byte 4 is not 0"
    return None


def zone_intent(zone, power=KEEP, setting=KEEP, value=None, methods=(KEEP,)):
    return {"zone": zone, "power": power, "setting": setting, "value": value, "methods": methods}


def match_zone_control(gen, reading, intent):
    if "multi" in reading:
        return f"{len(reading['multi'])} records in one zone control message"
    zkey = "group" if gen == 4 else "zone"
    if reading[zkey] != intent["zone"]:
        return f"zone: frame says {reading[zkey]}, call means {intent['zone']}"
    if reading["power"] != intent["power"]:
        return f"power: frame says {reading['power']!r}, call means {intent['power']!r}"
    if reading["setting"] != intent["setting"]:
        return f"setting: frame says {reading['setting']!r}, call means {intent['setting']!r}"
    if intent["value"] is not None:
        if reading["value"] is None or reading["value"] == at4.UNSPEC or abs(reading["value"] - intent["value"]) > 1e-9:
            return f"value: frame says {reading['value']!r}, call means {intent['value']!r}"
    if reading["method"] not in intent["methods"]:
        return f"control method: frame says {reading['method']!r}, call allows {intent['methods']!r}"
    if reading.get("byte4", 0) != 0:
        return "byte 4 is not 0"
    if gen == 5 and reading.get("byte1_hi", 0) != 0:
        return "zone byte bits 8-7 are not 0"
    return None


def timer_state(t):
    """datetime.time | None -> reference timer dict"""
    if t is None:
        return {"disabled": True, "hour": 0, "minute": 0}
    return {"disabled": False, "hour": t[0], "minute": t[1]}


def match_timer_control(gen, reading, ac, which, new, other_reported):
    """reading: AT4 list of 4 slots / AT5 list of records.  The named timer is set to ``new``; the other one
    must be exactly as last reported (a disabled timer is identified by its disabled flag plus the reported
    hour/minute bits, as in the console's own report)."""
    recs = [r for r in reading if r["ac"] == ac]
    if gen == 5:
        if len(reading) != 1 or not recs:
            return f"timer control carries records for ACs {[r['ac'] for r in reading]}, expected exactly AC {ac}"
    if not recs:
        return f"no timer record for AC {ac}"
    r = recs[0]
    other = "off" if which == "on" else "on"
    if new["disabled"]:
        if not r[which]["disabled"]:
            return f"{which} timer should be cleared but the frame enables it at {r[which]['hour']}:{r[which]['minute']}"
    elif r[which] != new:
        return f"{which} timer: frame says {r[which]}, call means {new}"
    if r[other] != other_reported:
        return f"other ({other}) timer: frame says {r[other]}, last reported {other_reported}"
    if gen == 4:
        for s in reading:
            if s["ac"] != ac and (s["on"] != {"disabled": False, "hour": 0, "minute": 0} or s["off"] != {"disabled": False, "hour": 0, "minute": 0}):
                # the 4-slot AT4 message zero-fills the slots of the other ACs (pinned test vectors)
                return f"slot of AC {s['ac']} is not zero-filled: {s}"
    return None


def clamp_round(t, lo, hi, res):
    """Admissible transmitted set-points for a request t: round to resolution then clamp; at exact
    half-way points either neighbour is accepted."""
    import math
    q = t / res
    cands = {math.floor(q + 0.5 - 1e-9), math.floor(q + 0.5 + 1e-9), math.ceil(q - 0.5 - 1e-9), math.ceil(q - 0.5 + 1e-9)}
    out = set()
    for c in cands:
        v = c * res
        if abs(v - t) <= res / 2 + 1e-9:
            out.add(round(min(max(v, lo), hi), 6))
    return out
