"""C12 - subscribers hear about every change, and only about changes (DESIGN §6 C12)."""
from __future__ import annotations

import asyncio

import copy
import itertools

from .. import explorer, pubmodel, runner
from . import c10

SUBS = ["A1", "A2", "G1", "G2", "S1", "Z1", "Z2", "H1", "Y1", "B1", "B2"]
# A*: AirTouch subscribers; G*: general subscribers of AC0; S1: AC-state-only subscriber of AC0;
# B1/B2: ONE callable each registered with AC0 both as general and as AC-state subscriber (B1: general first, B2: AC-state
# first); 'unsub-one-of-both' removes B1's general and B2's AC-state registration - the other registration must live on;
# Z*: subscribers of zone 0 (belongs to AC0); H1: general subscriber of AC1 (owns zone 2); Y1: subscriber of zone 2


class Harness:
    def __init__(self, gen, order):
        self.w = c10.world(gen)
        self.gen = gen
        self.calls = {s: [] for s in SUBS}
        self.raising = set()
        self.active = set()
        self.oneshot = set()
        self.left_during_frame = set()
        at = self.w.at
        acs = {a.ac_id: a for a in at.air_conditioners}
        self.ac0, self.ac1 = acs[0], acs[1]
        self.z0 = next(z for z in self.ac0.zones if z.zone_id == 0)
        self.z2 = next(z for z in self.ac1.zones if z.zone_id == 2)
        self.fns = {}
        for i, s in enumerate(SUBS):
            self.fns[s] = self._make(s, i, order)
        self.targets = {"A1": (at.subscribe, at.unsubscribe), "A2": (at.subscribe, at.unsubscribe),
                        "G1": (self.ac0.subscribe, self.ac0.unsubscribe), "G2": (self.ac0.subscribe, self.ac0.unsubscribe),
                        "S1": (self.ac0.subscribe_ac_state, self.ac0.unsubscribe_ac_state),
                        "Z1": (self.z0.subscribe, self.z0.unsubscribe), "Z2": (self.z0.subscribe, self.z0.unsubscribe),
                        "H1": (self.ac1.subscribe, self.ac1.unsubscribe),
                        "Y1": (self.z2.subscribe, self.z2.unsubscribe),
                        "B1": (lambda f: (self.ac0.subscribe(f), self.ac0.subscribe_ac_state(f)), self.ac0.unsubscribe),
                        "B2": (lambda f: (self.ac0.subscribe_ac_state(f), self.ac0.subscribe(f)), self.ac0.unsubscribe_ac_state)}
        self.bmode = {"B1": "general", "B2": "general"}       # which rule applies: both registrations = general rule
        for s in SUBS:
            self.targets[s][0](self.fns[s])
            self.active.add(s)
        self.last_reported = copy.deepcopy(self.w.console.state)
        self.last_inst = (self.w.inst["update"], list(self.w.inst["versions"]))

    def _make(self, name, i, order):
        # '-susp1' / '-susp2': the odd / the other subscribers are slow - they yield to the loop twice before they
        # take note of the call, so a sibling that raises (or finishes) meanwhile must not take them down with it
        slow = (order.endswith("-susp1") and name in ("A1", "G1", "S1", "Z1")) or \
               (order.endswith("-susp2") and name not in ("A1", "G1", "S1", "Z1"))

        async def sub(ident):
            if slow:
                await asyncio.sleep(0)
                await asyncio.sleep(0)
            self.calls[name].append(ident)
            if name in self.oneshot:
                # a one-shot subscriber: removes itself (and registers a late-comer) from inside its callback
                self.oneshot.discard(name)
                self.targets[name][1](self.fns[name])
                self.active.discard(name)
                self.left_during_frame.add(name)
            if name in self.raising:
                raise RuntimeError(f"subscriber {name} fails")
        # canonical as_completed order sorts by qualname: 'order' decides whether raising subscribers
        # (odd numbered twins) run before or after their siblings
        prefix = f"{i:02d}" if order.startswith("fwd") else f"{99 - i:02d}"
        sub.__qualname__ = f"c12.sub.{prefix}.{name}"
        return sub

    def reset_counts(self):
        for s in SUBS:
            self.calls[s] = []


EVENTS = ["ac0-change", "ac0-repeat", "zone0-change", "zone0-repeat", "zone2-change", "all-zones-change", "timer-change", "timer-repeat",
          "errtext-change", "version-change", "version-repeat", "sub-twice", "unsub-twins", "raise-on", "raise-others", "oneshot-on",
          "unsub-one-of-both", "cmd-set-timer", "cmd-clear-timer", "cmd-ac0-mode",
          "errtext-repeat", "ac0-error-on", "mute-error-replies", "fail-next-write"]
# deeper histories over small families of events that belong together (error code / error text; timers)
FAMILIES = {"error": ["ac0-error-on", "errtext-change", "errtext-repeat", "ac0-repeat", "mute-error-replies", "fail-next-write"],
            "timer": ["timer-change", "timer-repeat", "cmd-set-timer", "cmd-clear-timer", "ac0-repeat"]}


def apply_event(h, ev, k):
    """Mutates the console state / subscriber sets; returns the frames to deliver (possibly none)."""
    c = h.w.console
    gen = h.gen
    if ev == "ac0-change":
        st = c.state["ac"][0]
        st["mode"] = "heat" if st["mode"] != "heat" else "cool"
        st["error"] = 3 if k % 2 else 0
        return [c.ac_status_frame(only=[0])]
    if ev == "ac0-repeat":
        return [c.ac_status_frame(only=[0])]
    if ev == "zone0-change":
        z = c.state["zone"][0]
        z["percent"] = (z["percent"] + 10) % 100
        return [c.zone_status_frame(only=[0])]
    if ev == "zone0-repeat":
        return [c.zone_status_frame(only=[0])]
    if ev == "zone2-change":
        z = c.state["zone"][2]
        z["power"] = "off" if z["power"] == "on" else "on"
        return [c.zone_status_frame(only=[2])]
    if ev == "all-zones-change":
        for z in c.state["zone"].values():
            z["percent"] = (z["percent"] + 7) % 100
        return [c.zone_status_frame()]
    if ev == "timer-change":
        t = c.state["timer"][0]["off"]
        t.update({"disabled": False, "hour": (t["hour"] + 1) % 24, "minute": 15})
        return [c.timer_status_frame()]
    if ev == "timer-repeat":
        return [c.timer_status_frame()]
    if ev == "errtext-change":
        c.state["error"][0] = f"ER: {k:02d}"
        return [c.error_frame(0)]
    if ev == "mute-error-replies":
        # from now on the console leaves error-information requests unanswered (lost answers): what the client knows
        # about the text is what earlier frames told it
        def hook(kind, fr, answers):
            return [] if kind == "req-error" else answers
        c.answer_hook = hook
        return []
    if ev == "fail-next-write":
        # the link is half-open: whatever the client writes next (the error-information request that answers an error
        # status, say) fails; the connection is replaced, and the frame that caused the write still counts
        live = h.w.net.live()
        if live:
            live[-1].fail_after = 0
        return []
    if ev == "errtext-repeat":
        # (a console repeats its error text only for an air-conditioner that is reporting an error: the text of an
        # AC without error code is not exposed, and what the client remembers of it is its own business)
        if not c.state["ac"][0]["error"] or not c.state["error"].get(0):
            return []
        return [c.error_frame(0)]
    if ev == "ac0-error-on":
        st = c.state["ac"][0]
        st["error"] = 3
        st["temperature"] = 20.0 + k / 2       # the code stays, another field moves
        return [c.ac_status_frame(only=[0])]
    if ev == "version-change":
        h.w.inst["update"] = not h.w.inst["update"]
        return [c.version_frame()]
    if ev == "version-repeat":
        return [c.version_frame()]
    if ev == "sub-twice":
        for s in ("A1", "G1", "S1", "Z1"):
            if s in h.active:
                h.targets[s][0](h.fns[s])
        return []
    if ev == "unsub-twins":
        for s in ("A2", "G2", "Z2"):
            h.targets[s][1](h.fns[s])
            h.active.discard(s)
        return []
    if ev == "raise-on":
        h.raising |= {"A1", "G1", "S1", "Z1"}
        return []
    if ev == "raise-others":
        # the complementary subset starts raising (together with 'raise-on': every subscriber raises)
        h.raising |= {"A2", "G2", "Z2", "H1", "Y1"}
        return []
    if ev == "unsub-one-of-both":
        h.targets["B1"][1](h.fns["B1"])        # B1 leaves the general set: still an AC-state subscriber
        h.targets["B2"][1](h.fns["B2"])        # B2 leaves the AC-state set: still a general subscriber
        h.bmode["B1"] = "state"
        return []
    if ev in ("cmd-set-timer", "cmd-clear-timer", "cmd-ac0-mode"):
        # an API command: the console applies it and reports the new state; that report is a frame like any other
        import datetime
        import pyairtouch as A

        def act():
            if ev == "cmd-set-timer":
                coro = h.ac0.set_quick_timer(A.AcTimerType.OFF_TIMER, datetime.time((7 + k) % 24, 15))
            elif ev == "cmd-clear-timer":
                coro = h.ac0.clear_quick_timer(A.AcTimerType.OFF_TIMER)
            else:
                cur = h.w.console.state["ac"][0]["mode"]
                coro = h.ac0.set_mode(A.AcMode.HEAT if cur != "heat" else A.AcMode.COOL)
            h.w.spawn(coro)
            h.w.loop.settle()
        return act
    if ev == "oneshot-on":
        # (un)subscribing from inside a callback is a placement of subscribe/unsubscribe like any other
        h.oneshot |= {s for s in ("A2", "G2", "Z2") if s in h.active}
        return []
    raise ValueError(ev)


def expectations(h, before, after, prev_state, prev_inst):
    """-> {sub: 'must' | 'mustnot' | 'free'} for one delivered frame batch."""
    gen = h.gen
    st = h.w.console.state
    ac0_changed = before["acs"][0] != after["acs"][0]
    z0_changed = before["zones"][0] != after["zones"][0]
    z1_changed = before["zones"][1] != after["zones"][1]
    ac1_changed = before["acs"][1] != after["acs"][1]
    z2_changed = before["zones"][2] != after["zones"][2]
    ver_changed = (before["update_available"], before["console_versions"]) != (after["update_available"], after["console_versions"])
    rec_same = lambda kind, k: prev_state[kind][k] == st[kind][k]  # noqa: E731
    ac0_same = rec_same("ac", 0) and rec_same("timer", 0) and rec_same("error", 0)
    ac1_same = rec_same("ac", 1) and rec_same("timer", 1) and rec_same("error", 1)
    z_same = {z: rec_same("zone", z) for z in (0, 1, 2)}
    ver_same = prev_inst == (h.w.inst["update"], list(h.w.inst["versions"]))
    exp = {}

    def rule(changed, same):
        return "must" if changed else ("mustnot" if same else "free")
    exp["A1"] = exp["A2"] = rule(ver_changed, ver_same)
    exp["G1"] = exp["G2"] = rule(ac0_changed or z0_changed or z1_changed, ac0_same and z_same[0] and z_same[1])
    exp["S1"] = "must" if ac0_changed else ("mustnot" if ac0_same else "free")
    exp["B2"] = exp["G1"]
    exp["B1"] = exp["G1"] if h.bmode["B1"] == "general" else exp["S1"]
    exp["Z1"] = exp["Z2"] = rule(z0_changed, z_same[0])
    exp["H1"] = rule(ac1_changed or z2_changed, ac1_same and z_same[2])
    exp["Y1"] = rule(z2_changed, z_same[2])
    ids = {"A1": h.w.at.airtouch_id, "A2": h.w.at.airtouch_id, "G1": 0, "G2": 0, "S1": 0, "Z1": 0, "Z2": 0, "H1": 1, "Y1": 2, "B1": 0, "B2": 0}
    return exp, ids


def run_history(job):
    gen, order, seq = job
    h = Harness(gen, order)
    w = h.w
    names = [EVENTS[i] for i in seq]
    trace = []
    for k, idx in enumerate(seq):
        ev = EVENTS[idx]
        before = pubmodel.expected_view(gen, w.inst, w.console.state)
        prev_state = copy.deepcopy(w.console.state)
        prev_inst = (w.inst["update"], list(w.inst["versions"]))
        frames = apply_event(h, ev, k + 1)
        if not frames:
            continue
        h.reset_counts()
        h.left_during_frame = set()
        if callable(frames):
            frames()
        else:
            for fr in frames:
                c10.push(w, fr)
        after = pubmodel.expected_view(gen, w.inst, w.console.state)
        label = f"at{gen}/{order} history {names[:k + 1]}"
        d = pubmodel.diff(after, pubmodel.observed_view(w.at))
        if d:
            return (f"at{gen}:model-after:{ev}", f"{label}: {d[0]}")
        exp, ids = expectations(h, before, after, prev_state, prev_inst)
        trace.append(tuple(len(h.calls[s]) for s in SUBS))
        for s in SUBS:
            got = h.calls[s]
            if s not in h.active and s not in h.left_during_frame:
                if got:
                    return (f"at{gen}:unsubscribed-called:{ev}", f"{label}: unsubscribed {s} was called {len(got)}x")
                continue
            if exp[s] == "must" and not got:
                return (f"at{gen}:missed-notification:{ev}:{s}", f"{label}: {s} not notified although its entity changed")
            if exp[s] == "mustnot" and got:
                return (f"at{gen}:spurious-notification:{ev}:{s}", f"{label}: {s} notified {len(got)}x although the console only repeated an identical report")
            if any(g != ids[s] for g in got):
                return (f"at{gen}:wrong-identifier:{ev}:{s}", f"{label}: {s} called with {got}, expected id {ids[s]}")
        for a, b in (("A1", "A2"), ("G1", "G2"), ("Z1", "Z2")):
            if b in h.left_during_frame:
                continue
            if a in h.active and b in h.active and len(h.calls[a]) != len(h.calls[b]):
                return (f"at{gen}:twin-mismatch:{ev}", f"{label}: {a} called {len(h.calls[a])}x but {b} {len(h.calls[b])}x "
                        "(double subscription / a raising sibling must have no effect)")
    # a raising subscriber must not disturb the reception of later frames
    if w.loop.exc_reports:
        return (f"at{gen}:loop-exception", f"at{gen} {names}: {w.loop.exc_reports[:1]}")
    if not w.at._socket.is_connected if hasattr(w.at, "_socket") else False:
        return (f"at{gen}:connection-lost", f"at{gen} {names}: connection lost after subscriber failures")
    return (None, repr(trace))


def replay_input(rp):
    if "numbering" in rp:
        gen, nums = rp["numbering"]
        sig, msg = run_numbering((gen, tuple(nums)))
        return msg if sig else None
    sig, msg = run_history((rp["gen"], rp["order"], tuple(rp["seq"])))
    return msg if sig else None


NUMBERINGS = [(0, 2), (1, 3), (0, 3), (2, 3), (1, 2)]


def run_numbering(job):
    """AC numbers need not be 0..n-1 (a unit that was removed, a console that numbers from 1): two ACs with the given
    numbers; each AC has a general and an AC-state subscriber; every AC-scoped frame kind changes ONE AC at a time, then
    is repeated byte for byte.  The AC that changed notifies both its subscribers with its own id, the view follows
    the console, the repeat notifies nobody."""
    from .. import apiworld, console
    gen, nums = job
    inst = console.default_installation(gen, 2, (2, 1))
    for a, n in zip(inst["acs"], nums):
        a["ac"] = n
    w = apiworld.ApiWorld(gen, inst, auto=True)
    label = f"at{gen} ACs numbered {list(nums)}"
    r = w.init_now(0.0)
    if not (r and r[1] is True):
        return (f"at{gen}:numbering:init", f"{label}: init() -> {r}")
    w.loop.settle()
    acs = {a.ac_id: a for a in w.at.air_conditioners}
    if sorted(acs) != sorted(nums):
        return (f"at{gen}:numbering:acs", f"{label}: client shows ACs {sorted(acs)}")
    calls = []

    def mk(tag):
        async def sub(ident):
            calls.append((tag, ident))
        sub.__qualname__ = f"c12.num.{tag}"
        return sub
    for n in nums:
        acs[n].subscribe(mk(f"G{n}"))
        acs[n].subscribe_ac_state(mk(f"S{n}"))
    c = w.console
    k = 0
    for rnd in range(2):
        for n in nums:
            for kind in ("status", "timer", "error"):
                k += 1
                if kind == "status":
                    st = c.state["ac"][n]
                    st["mode"] = "heat" if st["mode"] != "heat" else "cool"
                    mkframe = lambda: c.ac_status_frame(only=[n])      # noqa: E731
                elif kind == "timer":
                    t = c.state["timer"][n]["off"]
                    t.update({"disabled": False, "hour": (t["hour"] + 1) % 24, "minute": 15})
                    mkframe = c.timer_status_frame
                else:
                    c.state["ac"][n]["error"] = 3
                    c10.push(w, c.ac_status_frame(only=[n]))
                    c.state["error"][n] = f"ER: {k:02d}"
                    mkframe = lambda: c.error_frame(n)                 # noqa: E731
                for rep in (False, True):
                    calls.clear()
                    c10.push(w, mkframe())
                    what = f"{label}: {kind} frame #{k} for AC {n}" + (" repeated" if rep else "")
                    d = pubmodel.diff(pubmodel.expected_view(gen, w.inst, c.state), pubmodel.observed_view(w.at))
                    if d:
                        return (f"at{gen}:numbering:view:{kind}", f"{what}: {d[0]}")
                    got = sorted(calls)
                    want = [] if rep else sorted([(f"G{n}", n), (f"S{n}", n)])
                    if got != want:
                        return (f"at{gen}:numbering:notify:{kind}" + (":repeat" if rep else ""), f"{what}: notifications {got}, expected {want}")
    if w.loop_reports():
        return (f"at{gen}:numbering:loop-report", f"{label}: {w.loop_reports()[:1]}")
    return (None, k)


def run(tier, seed, part=None):
    chk = runner.Check("C12", tier, seed, "model_checking")
    chk.trusted_base = ["pvmc.console.SimConsole / pvmc.ref", "pvmc.pubmodel (what is an exposed attribute)", "pvmc.vloop, pvmc.simnet",
                        "canonical asyncio.as_completed order (both sibling orders are run)"]
    chk.assumptions = ["'must be called' is judged on exposed attributes; 'must not' on byte-identical repeats; "
                       "everything else is unconstrained", "call counts are only compared between twin subscribers"]
    depth = 3 if tier == "quick" else 4
    n = 0
    outcomes = set()
    for gen in (4, 5):
        core = [i for i, e in enumerate(EVENTS) if e not in ("errtext-repeat", "ac0-error-on", "mute-error-replies", "fail-next-write")]
        seqs = [s for d in range(1, depth + 1) for s in itertools.product(core, repeat=d)]
        jobs = [(gen, order, s) for order in ("fwd", "rev", "fwd-susp2", "rev-susp1") for s in seqs]
        for fam in FAMILIES.values():
            idx = [EVENTS.index(e) for e in fam]
            jobs += [(gen, "fwd", s) for d in (depth + 1, depth + 2) for s in itertools.product(idx, repeat=d)]
        res = explorer.pool().map(run_history, jobs, chunksize=32)
        for job, (sig, msg) in zip(jobs, res):
            n += len(job[2])
            if sig:
                chk.violation(sig, msg, {"kind": "input", "module": "pvmc.props.c12", "gen": gen, "order": job[1], "seq": list(job[2])})
            else:
                outcomes.add(msg)
        chk.parts.append({"scenario": f"at{gen}", "depth": depth, "events": EVENTS, "sequences": len(jobs)})
        chk.samples.append({"gen": gen, "history": [EVENTS[i] for i in seqs[len(seqs) // 3]]})
    jobs = [(gen, nums) for gen in (4, 5) for nums in NUMBERINGS]
    for job, (sig, msg) in zip(jobs, explorer.pool().map(run_numbering, jobs)):
        if sig:
            chk.violation(sig, msg, {"kind": "input", "module": "pvmc.props.c12", "numbering": list(job)})
        else:
            n += msg
    chk.parts.append({"scenario": "ac-numbering", "numberings": [list(x) for x in NUMBERINGS], "frames": "status / timer / error text, one AC at a time, each repeated"})
    chk.counters["states"] = len(outcomes)
    chk.counters["transitions"] = n
    chk.counters["executions"] = n
    chk.outcomes.update({o: 1 for o in outcomes})
    return chk.finish({"rule": "transitions = events applied to a real initialised client with 11 subscribers; "
                               "states = distinct final notification count vectors"})
