"""C03 - every message frames and parses back identically, lengths agree (DESIGN §6 C03)."""
from __future__ import annotations

import dataclasses
import datetime
import importlib
import itertools

from .. import explorer, runner, worlds
from ..ref import framing

STRINGS = ["", "A", "Living", "Zone 1", "Café", "客厅", "\U0001f600", "12345678", "a b", "ÿ"]


# ------------------------------------------------------------------------------------------ domains
def at4_messages(tier):
    """Generator of (class label, message) over the protocol domains of the 18 AT4 classes."""
    import pyairtouch.at4.comms.x1F_ext as ext
    import pyairtouch.at4.comms.x1FFF10_err_info as err
    import pyairtouch.at4.comms.x1FFF11_ac_ability as ab
    import pyairtouch.at4.comms.x1FFF12_group_names as gn
    import pyairtouch.at4.comms.x1FFF20_quick_timer as qt
    import pyairtouch.at4.comms.x1FFF30_console_ver as ver
    import pyairtouch.at4.comms.x2A_group_ctrl as gc
    import pyairtouch.at4.comms.x2B_group_status as gs
    import pyairtouch.at4.comms.x2C_ac_ctrl as ac
    import pyairtouch.at4.comms.x2D_ac_status as st
    import pyairtouch.at4.comms.x36_ac_timer_ctrl as tc
    import pyairtouch.at4.comms.x37_ac_timer_status as ts
    E = ext.ExtendedMessage
    full = True      # the full products are cheap enough for both tiers
    # 1 GroupControl: full product
    settings = [None, gc.GroupIncreaseDecrease.INCREASE, gc.GroupIncreaseDecrease.DECREASE] + \
        [gc.GroupDamperControl(p) for p in (range(0, 101) if full else range(0, 101, 5))] + \
        [gc.GroupSetPointControl(s) for s in (range(0, 64) if full else range(0, 64, 3))]
    for g, p, m, s in itertools.product(range(16), gc.GroupPowerControl, gc.GroupControlMethod, settings):
        yield "GroupControlMessage", gc.GroupControlMessage(g, p, m, s)
    # 2 GroupStatus: per field x boundaries
    def gsd(**kw):
        d = dict(group_number=3, power_state=gs.GroupPowerState.ON, control_method=gs.GroupControlMethod.TEMPERATURE, spill_active=False,
                 supports_turbo=True, has_sensor=True, battery_status=gs.SensorBatteryStatus.NORMAL, temperature=23.4,
                 damper_percentage=60, set_point=22)
        d.update(kw)
        return gs.GroupStatusData(**d)
    bases = [gsd(), gsd(group_number=15, power_state=gs.GroupPowerState.TURBO, control_method=gs.GroupControlMethod.DAMPER, spill_active=True,
                        supports_turbo=False, battery_status=gs.SensorBatteryStatus.LOW, temperature=None, damper_percentage=100, set_point=63),
             gsd(has_sensor=False, temperature=None, set_point=None, damper_percentage=0, group_number=0, power_state=gs.GroupPowerState.OFF)]
    for b in bases:
        yield "GroupStatusMessage", gs.GroupStatusMessage([b])
    for g in range(16):
        yield "GroupStatusMessage", gs.GroupStatusMessage([gsd(group_number=g)])
    for ps, cm, sp, tu, ba in itertools.product(gs.GroupPowerState, gs.GroupControlMethod, [False, True], [False, True], gs.SensorBatteryStatus):
        yield "GroupStatusMessage", gs.GroupStatusMessage([gsd(power_state=ps, control_method=cm, spill_active=sp, supports_turbo=tu, battery_status=ba)])
    for t in range(-500, 1540):          # whole representable range below the 0xFF sentinel, 0.1 degC grid
        yield "GroupStatusMessage", gs.GroupStatusMessage([gsd(temperature=t / 10)])
    for d in range(0, 101):
        yield "GroupStatusMessage", gs.GroupStatusMessage([gsd(damper_percentage=d)])
    for s in range(0, 64):
        yield "GroupStatusMessage", gs.GroupStatusMessage([gsd(set_point=s)])
    for n in range(0, 17):
        yield "GroupStatusMessage", gs.GroupStatusMessage([dataclasses.replace(bases[i % 3], group_number=i) for i in range(n)])
    if tier == "thorough":
        # full products of the fields that share a byte on the wire
        for cm, d in itertools.product(gs.GroupControlMethod, range(0, 101)):
            yield "GroupStatusMessage", gs.GroupStatusMessage([gsd(control_method=cm, damper_percentage=d)])
        for ba, tu, sp_ in itertools.product(gs.SensorBatteryStatus, [False, True], range(0, 64)):
            yield "GroupStatusMessage", gs.GroupStatusMessage([gsd(battery_status=ba, supports_turbo=tu, set_point=sp_)])
        for t, sp in itertools.product(range(-500, 1540), [False, True]):
            yield "GroupStatusMessage", gs.GroupStatusMessage([gsd(temperature=t / 10, spill_active=sp)])
        for g, ps in itertools.product(range(16), gs.GroupPowerState):
            yield "GroupStatusMessage", gs.GroupStatusMessage([gsd(group_number=g, power_state=ps)])
    yield "GroupStatusRequest", gs.GroupStatusRequest()
    # 4 AcControl: full product
    sps = [None, ac.AcIncreaseDecrease.INCREASE, ac.AcIncreaseDecrease.DECREASE] + [ac.AcSetPointValue(v) for v in range(0, 64)]
    for a, p, m, f, s in itertools.product(range(4), ac.AcPowerControl, ac.AcModeControl, ac.AcFanSpeedControl, sps if full else sps[::4]):
        yield "AcControlMessage", ac.AcControlMessage(a, p, m, f, s)
    # 5 AcStatus
    def asd(**kw):
        d = dict(ac_number=1, power_state=st.AcPowerState.ON, mode=st.AcMode.COOL, fan_speed=st.AcFanSpeed.LOW, spill_active=False,
                 timer_set=False, set_point=24, temperature=25.5, error_code=0)
        d.update(kw)
        return st.AcStatusData(**d)
    for a, p, m, f, sp, ti in itertools.product(range(4), st.AcPowerState, st.AcMode, st.AcFanSpeed, [False, True], [False, True]):
        yield "AcStatusMessage", st.AcStatusMessage([asd(ac_number=a, power_state=p, mode=m, fan_speed=f, spill_active=sp, timer_set=ti)])
    for s in range(64):
        yield "AcStatusMessage", st.AcStatusMessage([asd(set_point=s)])
    for t in range(-500, 1540):
        yield "AcStatusMessage", st.AcStatusMessage([asd(temperature=t / 10)])
    for e in list(range(0, 300)) + [0xFFFE, 0xFFFF, 0x8000, 0x0100]:
        yield "AcStatusMessage", st.AcStatusMessage([asd(error_code=e)])
    for n in range(0, 17):
        yield "AcStatusMessage", st.AcStatusMessage([asd(ac_number=i % 4, set_point=i) for i in range(n)])
    if tier == "thorough":
        for sp, ti, v in itertools.product([False, True], [False, True], range(64)):
            yield "AcStatusMessage", st.AcStatusMessage([asd(spill_active=sp, timer_set=ti, set_point=v)])
        for t, e in itertools.product(range(-500, 1540, 7), (0, 1, 255, 256, 0xFFFF)):
            yield "AcStatusMessage", st.AcStatusMessage([asd(temperature=t / 10, error_code=e)])
    yield "AcStatusRequest", st.AcStatusRequest()
    # 7/8 timers
    def states(mod):
        return [mod.AcTimerState(d, h, m) for d in (False, True) for h in (range(24) if full else (0, 1, 12, 23)) for m in (0, 1, 30, 59)]
    for mod, cls, name in ((tc, tc.AcTimerControlMessage, "AcTimerControlMessage"), (ts, ts.AcTimerStatusMessage, "AcTimerStatusMessage")):
        data = tc.AcTimerControlData if mod is tc else ts.AcTimerStatusData
        stt = states(ts)
        for a in range(4):
            for s1 in stt:
                yield name, cls([data(a, s1, stt[(a * 7 + 3) % len(stt)])])
                yield name, cls([data(a, stt[(a * 5 + 1) % len(stt)], s1)])
        for n in range(0, 5):
            yield name, cls([data(i, stt[i], stt[-1 - i]) for i in range(n)])
    yield "AcTimerStatusRequest", ts.AcTimerStatusRequest()
    # extended
    for a in range(4):
        yield "AcErrorInformationRequest", E(err.AcErrorInformationRequest(a))
        for s in [None] + STRINGS[1:] + ["ER: FFFE", "x" * 200]:
            yield "AcErrorInformationMessage", E(err.AcErrorInformationMessage(a, s))
    yield "AcAbilityRequest", E(ab.AcAbilityRequest("ALL"))
    for a in range(4):
        yield "AcAbilityRequest", E(ab.AcAbilityRequest(a))
    M, F = ac.AcModeControl, ac.AcFanSpeedControl
    modes = [m for m in M if m.name != "UNCHANGED"]
    fans = [f for f in F if f.name != "UNCHANGED"]

    def abil(a=0, name="UNIT", mb=0b10111, fb=0b0011101, lo=17, hi=31, groups=frozenset({0, 1, 2}), start=0, count=4):
        ms = {m: bool(mb >> i & 1) for i, m in enumerate(modes)}
        ms[M.UNCHANGED] = True
        fs = {f: bool(fb >> i & 1) for i, f in enumerate(fans)}
        fs[F.UNCHANGED] = True
        return ab.AcAbility(ac_number=a, ac_name=name, ac_mode_support=ms, fan_speed_support=fs, min_set_point=lo, max_set_point=hi,
                            groups=None if groups is None else set(groups), start_group=start, group_count=count)
    for mb in range(32):
        yield "AcAbilityMessage", E(ab.AcAbilityMessage([abil(mb=mb)]))
    for fb in range(128):
        yield "AcAbilityMessage", E(ab.AcAbilityMessage([abil(fb=fb)]))
    for g in range(16):
        yield "AcAbilityMessage", E(ab.AcAbilityMessage([abil(groups={g})]))
    for gset in (None, set(), set(range(16)), {0, 15}, {7, 8}):
        yield "AcAbilityMessage", E(ab.AcAbilityMessage([abil(groups=gset)]))
    for s in [x for x in STRINGS if len(x.encode()) <= 16] + ["1234567890ABCDEF"]:
        yield "AcAbilityMessage", E(ab.AcAbilityMessage([abil(name=s)]))
    for v in (0, 1, 16, 31, 255):
        yield "AcAbilityMessage", E(ab.AcAbilityMessage([abil(lo=v, hi=255 - v, start=v % 16, count=v % 17)]))
    for n in range(0, 5):
        yield "AcAbilityMessage", E(ab.AcAbilityMessage([abil(a=i, groups=None if i % 2 else {i}) for i in range(n)]))
    yield "GroupNamesRequest", E(gn.GroupNamesRequest("ALL"))
    for g in range(16):
        yield "GroupNamesRequest", E(gn.GroupNamesRequest(g))
    for s in [x for x in STRINGS if len(x.encode()) <= 8]:
        for g in (0, 7, 15):
            yield "GroupNamesMessage", E(gn.GroupNamesMessage({g: s}))
    for n in range(0, 17):
        yield "GroupNamesMessage", E(gn.GroupNamesMessage({i: f"Zone{i}" for i in range(n)}))
    for a, t, h, m in itertools.product(range(4), qt.TimerType, range(0, 24), (0, 1, 30, 59)):
        yield "QuickTimerMessage", E(qt.QuickTimerMessage(a, t, datetime.timedelta(hours=h, minutes=m)))
    yield "ConsoleVersionRequest", E(ver.ConsoleVersionRequest())
    for upd in (False, True):
        for vs in (["1.2.3"], ["1.2.3", "1.2.2"], ["1.0"], ["Ünï"], ["x" * 100]):
            yield "ConsoleVersionMessage", E(ver.ConsoleVersionMessage(upd, vs))


def at5_messages(tier):
    import pyairtouch.at5.comms.x1F_ext as ext
    import pyairtouch.at5.comms.x1FFF10_err_info as err
    import pyairtouch.at5.comms.x1FFF11_ac_ability as ab
    import pyairtouch.at5.comms.x1FFF13_zone_names as zn
    import pyairtouch.at5.comms.x1FFF30_console_ver as ver
    import pyairtouch.at5.comms.x1FFF49_quick_timer as qt
    import pyairtouch.at5.comms.xC0_ctrl_status as c0
    import pyairtouch.at5.comms.xC020_zone_ctrl as zc
    import pyairtouch.at5.comms.xC021_zone_status as zs
    import pyairtouch.at5.comms.xC022_ac_ctrl as ac
    import pyairtouch.at5.comms.xC023_ac_status as st
    import pyairtouch.at5.comms.xC032_ac_timer_ctrl as tc
    import pyairtouch.at5.comms.xC033_ac_timer_status as ts
    E, W = ext.ExtendedMessage, c0.ControlStatusMessage
    full = True      # the full products are cheap enough for both tiers
    settings = [None, zc.ZoneIncreaseDecrease.INCREASE, zc.ZoneIncreaseDecrease.DECREASE] + \
        [zc.ZoneDamperControl(p) for p in (range(0, 101) if full else range(0, 101, 5))] + \
        [zc.ZoneSetPointControl((v + 100) / 10) for v in (range(0, 251) if full else range(0, 251, 3))]
    for z, p, s in itertools.product(range(16), zc.ZonePowerControl, settings):
        yield "ZoneControlMessage", W(zc.ZoneControlMessage([zc.ZoneControlData(z, p, s)]))
    for n in range(0, 17):
        yield "ZoneControlMessage", W(zc.ZoneControlMessage([zc.ZoneControlData(i, zc.ZonePowerControl.TURN_ON, settings[i % len(settings)]) for i in range(n)]))

    def zsd(**kw):
        d = dict(zone_number=3, power_state=zs.ZonePowerState.ON, spill_active=False, control_method=zs.ZoneControlMethod.TEMPERATURE,
                 has_sensor=True, battery_status=zs.SensorBatteryStatus.NORMAL, temperature=24.3, damper_percentage=60, set_point=25.0)
        d.update(kw)
        return zs.ZoneStatusData(**d)
    for z in range(16):
        yield "ZoneStatusMessage", W(zs.ZoneStatusMessage([zsd(zone_number=z)]))
    for ps, sp, cm, ba in itertools.product(zs.ZonePowerState, [False, True], zs.ZoneControlMethod, zs.SensorBatteryStatus):
        yield "ZoneStatusMessage", W(zs.ZoneStatusMessage([zsd(power_state=ps, spill_active=sp, control_method=cm, battery_status=ba)]))
    for t in range(-500, 1501):
        yield "ZoneStatusMessage", W(zs.ZoneStatusMessage([zsd(temperature=t / 10)]))
    yield "ZoneStatusMessage", W(zs.ZoneStatusMessage([zsd(temperature=None)]))
    yield "ZoneStatusMessage", W(zs.ZoneStatusMessage([zsd(has_sensor=False, temperature=None, set_point=None)]))
    for d in range(0, 101):
        yield "ZoneStatusMessage", W(zs.ZoneStatusMessage([zsd(damper_percentage=d)]))
    for v in range(0, 251):
        yield "ZoneStatusMessage", W(zs.ZoneStatusMessage([zsd(set_point=(v + 100) / 10)]))
    for n in range(0, 17):
        yield "ZoneStatusMessage", W(zs.ZoneStatusMessage([zsd(zone_number=i, damper_percentage=i * 5) for i in range(n)]))
    if tier == "thorough":
        for z, ps in itertools.product(range(16), zs.ZonePowerState):
            yield "ZoneStatusMessage", W(zs.ZoneStatusMessage([zsd(zone_number=z, power_state=ps)]))
        for cm, d in itertools.product(zs.ZoneControlMethod, range(0, 101)):
            yield "ZoneStatusMessage", W(zs.ZoneStatusMessage([zsd(control_method=cm, damper_percentage=d)]))
        for t, sp, ba in itertools.product(range(-500, 1501), [False, True], zs.SensorBatteryStatus):
            yield "ZoneStatusMessage", W(zs.ZoneStatusMessage([zsd(temperature=t / 10, spill_active=sp, battery_status=ba)]))
        for v, hs in itertools.product(range(0, 251), [True]):
            yield "ZoneStatusMessage", W(zs.ZoneStatusMessage([zsd(set_point=(v + 100) / 10, temperature=None)]))
    yield "ZoneStatusRequest", W(zs.ZoneStatusRequest())
    sps = [None] + [(v + 100) / 10 for v in (range(0, 251) if full else range(0, 251, 4))]
    for a, p, m, f in itertools.product(range(16), ac.AcPowerControl, ac.AcModeControl, ac.AcFanSpeedControl):
        yield "AcControlMessage", W(ac.AcControlMessage([ac.AcControlData(a, p, m, f, None)]))
    for a, s in itertools.product((0, 7, 15), sps):
        yield "AcControlMessage", W(ac.AcControlMessage([ac.AcControlData(a, ac.AcPowerControl.UNCHANGED, ac.AcModeControl.UNCHANGED, ac.AcFanSpeedControl.UNCHANGED, s)]))
    for n in range(0, 17):
        yield "AcControlMessage", W(ac.AcControlMessage([ac.AcControlData(i, ac.AcPowerControl.TURN_ON, ac.AcModeControl.COOL, ac.AcFanSpeedControl.LOW, 20.0 + i) for i in range(n)]))

    def asd(**kw):
        d = dict(ac_number=1, power_state=st.AcPowerState.ON, mode=st.AcMode.COOL, fan_speed=st.AcFanSpeed.LOW, turbo_active=False,
                 bypass_active=False, spill_active=False, timer_set=False, set_point=22.0, temperature=23.0, error_code=0)
        d.update(kw)
        return st.AcStatusData(**d)
    for a, p, m, f in itertools.product(range(16), st.AcPowerState, st.AcMode, st.AcFanSpeed):
        yield "AcStatusMessage", W(st.AcStatusMessage([asd(ac_number=a, power_state=p, mode=m, fan_speed=f)]))
    for fl in itertools.product([False, True], repeat=4):
        yield "AcStatusMessage", W(st.AcStatusMessage([asd(turbo_active=fl[0], bypass_active=fl[1], spill_active=fl[2], timer_set=fl[3])]))
    for v in range(0, 251):
        yield "AcStatusMessage", W(st.AcStatusMessage([asd(set_point=(v + 100) / 10)]))
    for t in range(-500, 1501):
        yield "AcStatusMessage", W(st.AcStatusMessage([asd(temperature=t / 10)]))
    for e in list(range(0, 300)) + [0xFFFE, 0xFFFF, 0x8000]:
        yield "AcStatusMessage", W(st.AcStatusMessage([asd(error_code=e)]))
    for n in range(0, 17):
        yield "AcStatusMessage", W(st.AcStatusMessage([asd(ac_number=i, set_point=20.0 + i) for i in range(n)]))
    if tier == "thorough":
        for fl in itertools.product([False, True], repeat=4):
            for t in range(-500, 1501, 3):
                yield "AcStatusMessage", W(st.AcStatusMessage([asd(turbo_active=fl[0], bypass_active=fl[1], spill_active=fl[2], timer_set=fl[3],
                                                                  temperature=t / 10)]))
            for v in range(0, 251):
                yield "AcStatusMessage", W(st.AcStatusMessage([asd(turbo_active=fl[0], bypass_active=fl[1], spill_active=fl[2], timer_set=fl[3],
                                                                  set_point=(v + 100) / 10)]))
    yield "AcStatusRequest", W(st.AcStatusRequest())
    stt = [ts.AcTimerState(d, h, m) for d in (False, True) for h in (range(24) if full else (0, 1, 12, 23)) for m in (0, 1, 30, 59)]
    for cls, data, name in ((tc.AcTimerControlMessage, tc.AcTimerControlData, "AcTimerControlMessage"),
                            (ts.AcTimerStatusMessage, ts.AcTimerStatusData, "AcTimerStatusMessage")):
        for a in (0, 1, 15):
            for s1 in stt:
                yield name, W(cls([data(a, s1, stt[(a * 7 + 3) % len(stt)])]))
                yield name, W(cls([data(a, stt[(a * 5 + 1) % len(stt)], s1)]))
        for n in range(0, 17):
            if n == 0 and cls is tc.AcTimerControlMessage:
                continue
            yield name, W(cls([data(i, stt[i], stt[-1 - i]) for i in range(n)]))
    yield "AcTimerStatusRequest", W(ts.AcTimerStatusRequest())
    for a in range(16):
        yield "AcErrorInformationRequest", E(err.AcErrorInformationRequest(a))
        for s in [None] + STRINGS[1:] + ["ER: FFFE", "x" * 200]:
            yield "AcErrorInformationMessage", E(err.AcErrorInformationMessage(a, s))
    yield "AcAbilityRequest", E(ab.AcAbilityRequest("ALL"))
    for a in range(16):
        yield "AcAbilityRequest", E(ab.AcAbilityRequest(a))
    M, F = ac.AcModeControl, ac.AcFanSpeedControl
    modes = [m for m in M if m.name != "UNCHANGED"]
    fans = [f for f in F if f.name != "UNCHANGED"]

    def abil(a=0, name="UNIT", mb=0b10111, fb=0b00011101, lims=(16, 31, 18, 31), start=0, count=4):
        ms = {m: bool(mb >> i & 1) for i, m in enumerate(modes)}
        ms[M.UNCHANGED] = True
        fs = {f: bool(fb >> i & 1) for i, f in enumerate(fans)}
        fs[F.UNCHANGED] = True
        return ab.AcAbility(ac_number=a, ac_name=name, start_zone=start, zone_count=count, ac_mode_support=ms, fan_speed_support=fs,
                            min_cool_set_point=lims[0], max_cool_set_point=lims[1], min_heat_set_point=lims[2], max_heat_set_point=lims[3])
    for mb in range(32):
        yield "AcAbilityMessage", E(ab.AcAbilityMessage([abil(mb=mb)]))
    for fb in range(256):
        yield "AcAbilityMessage", E(ab.AcAbilityMessage([abil(fb=fb)]))
    for s in [x for x in STRINGS if len(x.encode()) <= 16] + ["1234567890ABCDEF"]:
        yield "AcAbilityMessage", E(ab.AcAbilityMessage([abil(name=s)]))
    for v in (0, 1, 16, 31, 255):
        yield "AcAbilityMessage", E(ab.AcAbilityMessage([abil(lims=(v, 255 - v, (v * 3) % 256, (v * 7) % 256), start=v % 16, count=v % 17)]))
    for n in range(0, 9):
        yield "AcAbilityMessage", E(ab.AcAbilityMessage([abil(a=i, start=i) for i in range(n)]))
    yield "ZoneNamesRequest", E(zn.ZoneNamesRequest("ALL"))
    for z in range(16):
        yield "ZoneNamesRequest", E(zn.ZoneNamesRequest(z))
    for s in STRINGS + ["x" * 255]:
        for z in (0, 7, 15):
            yield "ZoneNamesMessage", E(zn.ZoneNamesMessage({z: s}))
    for n in range(0, 17):
        yield "ZoneNamesMessage", E(zn.ZoneNamesMessage({i: STRINGS[i % len(STRINGS)] + str(i) for i in range(n)}))
    for a, t, h, m in itertools.product((0, 1, 15), qt.TimerType, range(0, 24), (0, 1, 30, 59)):
        yield "QuickTimerMessage", E(qt.QuickTimerMessage(a, t, datetime.timedelta(hours=h, minutes=m)))
    yield "ConsoleVersionRequest", E(ver.ConsoleVersionRequest())
    for upd in (False, True):
        for vs in (["1.0.3"], ["1.0.3", "1.0.3"], ["Ünï"], ["x" * 100]):
            yield "ConsoleVersionMessage", E(ver.ConsoleVersionMessage(upd, vs))


# ------------------------------------------------------------------------------------------ equivalences
def normalise(gen, m):
    """Wire-level equivalences (DESIGN §6 C03): a status/name message with zero records *is* the request;
    an AT4 timer message is a fixed four-slot record (missing slots zero-filled)."""
    n = type(m).__name__
    if n in ("ExtendedMessage", "ControlStatusMessage"):
        return (n, normalise(gen, m.sub_message))
    if n in ("GroupStatusMessage", "ZoneStatusMessage") and not (getattr(m, "groups", None) or getattr(m, "zones", None)):
        return ("status-request", n[:4])
    if n in ("GroupStatusRequest", "ZoneStatusRequest"):
        return ("status-request", n[:4])
    if n == "AcStatusMessage" and not m.ac_status:
        return ("ac-status-request",)
    if n == "AcStatusRequest":
        return ("ac-status-request",)
    if n in ("AcTimerStatusMessage", "AcTimerControlMessage"):
        recs = {t.ac_number: (dataclasses.astuple(t.on_timer), dataclasses.astuple(t.off_timer)) for t in m.ac_timer_status}
        if gen == 4:
            z = ((False, 0, 0), (False, 0, 0))
            return (n, tuple(recs.get(i, z) for i in range(4)))
        if not recs and n == "AcTimerStatusMessage":
            return ("timer-status-request",)
        return (n, tuple(sorted(recs.items())))
    if n == "AcTimerStatusRequest":
        return ("timer-status-request",) if gen == 5 else (n,)
    if n in ("GroupNamesMessage", "ZoneNamesMessage"):
        names = getattr(m, "group_names", None) if gen == 4 else m.zone_names
        if not names:
            return ("names-request-all",)
        return (n, tuple(sorted(names.items())))
    if n in ("GroupNamesRequest", "ZoneNamesRequest"):
        which = m.group_number if gen == 4 else m.zone_number
        return ("names-request-all",) if which == "ALL" else (n, which)
    if n == "AcAbilityMessage" and not m.ac_abilities:
        return ("ability-request-all",)
    if n == "AcAbilityRequest" and m.ac_number == "ALL":
        return ("ability-request-all",)
    if n == "AcAbilityMessage":
        return (n, repr(m))
    return (n, m)


def sub_encoder(m):
    """The encoder object responsible for the (nested) message, found by module convention."""
    mod = importlib.import_module(type(m).__module__)
    for name in ("AcTimerControlEncoder",):
        if hasattr(mod, name) and type(m).__name__ == "AcTimerControlMessage":
            return getattr(mod, name)()
    cands = [v for k, v in vars(mod).items() if isinstance(v, type) and k.endswith("Encoder") and v.__module__ == mod.__name__]
    return cands[0]() if cands else None


def size_problem(gen, reg, m):
    enc = reg.get_encoder(m.message_id)
    hdr = reg.header_factory.create_from_message(m, enc.size(m))
    n = len(enc.encode(hdr, m))
    if enc.size(m) != n:
        return f"wrapper size()={enc.size(m)} but encode() produced {n} bytes"
    sub = getattr(m, "sub_message", None)
    if sub is not None:
        se = sub_encoder(sub)
        if se is not None:
            if hasattr(se, "size"):
                want = se.size(sub)
                got = len(se.encode(None, sub))
            else:
                want = se.non_repeat_size(sub) + se.repeat_count(sub) * se.repeat_size(sub)
                got = len(se.encode(None, sub))
            if want != got:
                return f"nested {type(sub).__name__}: size computed in advance {want}, bytes produced {got}"
    return None


class Loopback(worlds.World):
    """Sender socket -> captured bytes -> receiver socket."""

    def __init__(self, gen):
        super().__init__()
        import pyairtouch.comms.socket as S
        self.S = S
        self.gen = gen
        self.reg = worlds.fresh_registry(gen)
        self.net.auto = "accept"
        self.tx = S.AirTouchSocket(self.loop, "console", 9000 + gen, self.reg)
        self.rx = S.AirTouchSocket(self.loop, "client", 9100 + gen, self.reg)
        self.got = []

        async def on_msg(hdr, msg):
            self.got.append((hdr, msg))
        on_msg.__qualname__ = "c03.on_msg"
        self.rx.subscribe_on_message_received(on_msg)
        self.spawn(self.tx.open_socket())
        self.loop.settle()
        self.spawn(self.rx.open_socket())
        self.loop.settle()
        self.t_tx, self.t_rx = self.net.conns[0], self.net.conns[1]
        self.pol = S.RetryPolicy(0, 30.0)

    def roundtrip(self, m):
        """-> (problem or None)"""
        n0 = len(self.t_tx.written)
        self.log0 = len(self.net.log)
        self.count = getattr(self, "count", 0) + 1
        res = {}

        async def drv():
            try:
                await self.tx.send(m, self.pol)
                res["ok"] = True
            except Exception as e:  # noqa: BLE001
                res["exc"] = e
        self.spawn(drv())
        self.loop.settle()
        raw = bytes(self.t_tx.written[n0:])
        self.last_raw = raw
        if "exc" in res:
            return f"send() raised {type(res['exc']).__name__}: {res['exc']}"
        if not raw:
            return "send() returned but nothing was written (encoder failed inside the send path)"
        frames, residue, err = framing.split(self.gen, raw)
        if err or residue or len(frames) != 1:
            return f"send path output is not exactly one well-formed frame: err={err} residue={residue.hex()} frames={len(frames)} raw={raw.hex()}"
        fr = frames[0]
        if not fr.crc_ok:
            return f"check bytes wrong: {raw.hex()}"
        if self.gen == 5 and not fr.outer_ok:
            return f"outer header length does not equal inner length + 12: {raw.hex()}"
        g0 = len(self.got)
        if self.t_rx._closing or not self.rx.is_connected:
            return "HARNESS: receiver lost its connection"
        if self.count % 2:
            self.t_rx.peer_send(raw)
            self.loop.settle()
        else:
            # as written: the send path emits header, payload and check bytes as three chunks, which a peer
            # may well receive as three segments
            for e in self.net.log[self.log0:]:
                if e[1] == "write" and e[2] == self.t_tx.cid:
                    self.t_rx.peer_send(e[3])
                    self.loop.settle()
        if len(self.net.conns) > 2:
            # the receive path rejected the frame and reset: re-sync the harness
            self.t_rx = self.net.live()[-1]
            self.net.conns[:] = [self.net.conns[0], self.t_rx]
            return f"receive path rejected the frame produced by the send path: {raw.hex()}"
        if len(self.got) != g0 + 1:
            return f"receive path delivered {len(self.got) - g0} messages for one frame: {raw.hex()}"
        hdr, back = self.got[-1]
        if (hdr.to_address, hdr.from_address, hdr.packet_id, hdr.message_id, hdr.message_length) != (fr.to, fr.frm, fr.pid, fr.typ, len(fr.data)):
            return f"decoded header {hdr} differs from the frame {raw.hex()}"
        if normalise(self.gen, back) != normalise(self.gen, m):
            return f"parsed back as {back!r}"[:400]
        return None


def run_chunk(job):
    gen, tier, k, nchunks = job
    gen_fn = at4_messages if gen == 4 else at5_messages
    lb = Loopback(gen)
    n = 0
    bad = {}
    classes = {}
    ids = set()
    digests = set()
    import hashlib
    for i, (label, m) in enumerate(gen_fn(tier)):
        if i % nchunks != k:
            continue
        n += 1
        classes[label] = classes.get(label, 0) + 1
        p = size_problem(gen, lb.reg, m)
        if p is None:
            p = lb.roundtrip(m)
            if p is None:
                # distinct = distinct payloads actually framed and parsed back (the packet id is left out)
                raw = lb.last_raw
                digests.add(hashlib.blake2b(raw[:4] + raw[5:-2] if gen == 4 else raw[:16] + raw[17:-2], digest_size=8).digest())
        if p:
            sig = f"at{gen}:{label}:" + ("size" if "size" in p else "roundtrip")
            if sig not in bad:
                bad[sig] = f"{m!r}: {p}"[:700]
            if p.startswith("HARNESS"):
                lb = Loopback(gen)
    return n, classes, bad, digests


def replay_input(rp):
    return rp.get("message")


def run(tier, seed, part=None):
    chk = runner.Check("C03", tier, seed, "exploration")
    chk.trusted_base = ["pvmc.ref.framing (vendor documents; AT5 outer header from docs/design.md)", "pvmc.vloop / pvmc.simnet",
                        "dataclass equality of the library's message classes (used to compare what was sent with what came back)"]
    chk.assumptions = ["wire-level equivalences applied before comparing: zero-record status/name messages are the request; "
                       "AT4 timer messages are fixed four-slot records", "strings longer than their field are outside the domain",
                       "zones without sensor carry no temperature / set-point (protocol domain of the message)"]
    nchunks = 16
    jobs = [(gen, tier, k, nchunks) for gen in (4, 5) for k in range(nchunks)]
    res = explorer.pool().map(run_chunk, jobs, chunksize=1)
    total = 0
    classes = {4: {}, 5: {}}
    distinct = set()
    for job, (n, cl, bad, dg) in zip(jobs, res):
        total += n
        distinct |= {(job[0], d) for d in dg}
        for k, v in cl.items():
            classes[job[0]][k] = classes[job[0]].get(k, 0) + v
        for sig, msg in bad.items():
            chk.violation(sig, msg, {"kind": "input", "module": "pvmc.props.c03", "message": msg})
    chk.cov["classes"] = {f"at{g}": classes[g] for g in (4, 5)}
    chk.cov["message_classes_covered"] = sum(len(classes[g]) for g in (4, 5))
    chk.samples += [{"message": "at5 ControlStatusMessage(ZoneStatusMessage([...16 zones...]))"},
                    {"message": "at4 ExtendedMessage(GroupNamesMessage({0: 'Café'}))"}]
    return chk.finish({"evaluations": total, "distinct_nontrivial": total, "exhaustive": True,
                       "rule": "one evaluation = one message object sent through the real send path, framed by the reference framer, "
                               "and fed into the real receive path; messages are distinct by construction (full products for the "
                               "control messages, each field over its whole domain x base records otherwise, counts 0..16); all are "
                               "non-trivial (a frame is produced and compared)"})
