"""C18 - discovery reports each answering console once, correctly, and terminates (DESIGN §6 C18)."""
from __future__ import annotations

import itertools

from .. import explorer, runner, simnet, worlds
from ..vloop import EPS

REQ = {4: b"HF-A11ASSISTHREAD", 5: b"::REQUEST-POLYAIRE-AIRTOUCH-DEVICE-INFO:;"}      # AT4 v1.6 p.5, AT5 v1.2 p.5
PORT = {4: 49004, 5: 49005}
TOKENS = [b"", b"a", b"192.168.1.5", b"AirTouch4", b"AirTouch5", b"x y", b"\xff", "Küche".encode()]


def ref_parse(gen, data):
    """-> ('valid', (host, serial, id, name)) | ('invalid', None) | ('unspecified', None)
    AT4: [IP],[MAC],AirTouch4,[ID]          AT5: [IP],[ConsoleID],AirTouch5,[AirTouch ID],[Device Name]"""
    marker = b"AirTouch4" if gen == 4 else b"AirTouch5"
    want = 4 if gen == 4 else 5
    parts = data.split(b",")
    if len(parts) < want or parts[2] != marker:
        return "invalid", None
    if gen == 5:
        parts = parts[:4] + [b",".join(parts[4:])]        # commas inside the device name are preserved
    elif len(parts) > 4:
        return "unspecified", None                        # the AT4 format has exactly four fields
    try:
        txt = [p.decode("utf-8") for p in parts]
    except UnicodeDecodeError:
        return "invalid", None
    if any(not t for t in txt[:4]):
        return "unspecified", None                        # empty address / serial / id: not a vendor response, harmless either way
    return "valid", (txt[0], txt[1], txt[3], txt[4] if gen == 5 else None)


class Disc(worlds.World):
    def __init__(self):
        super().__init__()
        import pyairtouch.comms.discovery as D
        self.D = D
        self.fake = simnet.FakeSocketModule()
        D.socket = self.fake


def run_search(gen, arrivals, remote_host=None, tie_first="datagram"):
    """arrivals: [(time, bytes)].  Runs AirTouchDiscoverer.search() to completion.
    -> dict(sends=[(t, data, addr)], result=[...], t_return, closed, reports)"""
    w = Disc()
    if gen == 4:
        import pyairtouch.at4.comms.discovery as cfgmod
    else:
        import pyairtouch.at5.comms.discovery as cfgmod
    d = w.D.AirTouchDiscoverer(cfgmod.CONFIG, remote_host=remote_host)
    out = {}

    async def drv():
        try:
            out["result"] = await d.search()
        except Exception as e:  # noqa: BLE001
            out["raised"] = repr(e)
        out["t_return"] = w.loop.time()
    task = w.spawn(drv())
    L = w.loop
    pending = sorted(arrivals, key=lambda a: a[0])
    guard = 0
    while not task.done() and guard < 10000:
        guard += 1
        nd = L.next_deadline()
        nxt = pending[0][0] if pending else None
        if L.has_ready():
            L.turn()
            continue
        if nxt is not None and (nd is None or nxt < nd or (nxt == nd and tie_first == "datagram")):
            L.advance_to(nxt)
            t, data = pending.pop(0)
            if w.net.dgram:
                w.net.dgram[-1].peer_datagram(data)
            continue
        if nd is None:
            break
        L.advance_to(nd)
        L.turn()
        # datagrams with exactly this time, timer first
        while pending and pending[0][0] <= L.time():
            t, data = pending.pop(0)
            if w.net.dgram:
                w.net.dgram[-1].peer_datagram(data)
    # late datagrams (after close)
    for t, data in pending:
        L.advance_to(max(t, L.time()))
        if w.net.dgram:
            w.net.dgram[-1].peer_datagram(data)
        L.settle()
    L.settle()
    tr = w.net.dgram[-1] if w.net.dgram else None
    out["sends"] = list(tr.sent) if tr else []
    out["closed"] = bool(tr and tr._closing)
    out["reports"] = list(L.exc_reports)
    out["done"] = task.done()
    out["sock"] = w.fake.created[-1] if w.fake.created else None
    return out


def judge(gen, arrivals, out, remote_host=None):
    label = f"at{gen} arrivals {[(t, d[:40]) for t, d in arrivals]}"
    if not out.get("done") or "t_return" not in out:
        return f"{label}: search() did not return"
    if "raised" in out:
        return f"{label}: search() raised {out['raised']}"
    tr = out["t_return"]
    if tr > 1.5:
        return f"{label}: search() returned at t={tr} (> 1.5 s)"
    sends = out["sends"]
    addr = (remote_host or "255.255.255.255", PORT[gen])
    for (t, data, a) in sends:
        if data != REQ[gen]:
            return f"{label}: request bytes {data!r} are not the documented string"
        if a != addr:
            return f"{label}: request sent to {a}, expected {addr}"
    times = [s[0] for s in sends]
    if len(times) > 3 or times != [0.5 * k for k in range(len(times))]:
        return f"{label}: requests at {times}, expected at most three at 0.5 s spacing"
    if tr != 0.5 * len(times):
        return f"{label}: returned at t={tr} after {len(times)} requests"
    # which arrivals count: strictly before the return; ties are open
    sure, maybe = [], []
    for (t, data) in arrivals:
        st, parsed = ref_parse(gen, data)
        if st == "invalid" or t > tr:
            continue
        if t == tr or st == "unspecified" or any(abs(t - 0.5 * k) < EPS / 2 for k in range(1, 4)):
            maybe.append((t, st, parsed, data))
        else:
            sure.append((t, parsed))
    # stop rule: no request after an interval that contained a valid response
    for (t, parsed) in sure:
        k = int(t // 0.5) + 1            # first request instant after the arrival
        if any(s > 0.5 * k - EPS / 2 and s >= 0.5 * k for s in times):
            return f"{label}: a valid response arrived at t={t} but a request was still sent at t={[s for s in times if s >= 0.5 * k][0]}"
    if not sure and not maybe and len(times) != 3:
        return f"{label}: nobody answered, but only {len(times)} requests were sent"
    got = set()
    for r in out["result"]:
        got.add((r.host, r.serial, r.airtouch_id, getattr(r, "name", None)))
    if len(got) != len(out["result"]):
        return f"{label}: duplicate entries in the result {out['result']}"
    must = {p for _, p in sure}
    may = must | {p for (_t, st, p, _d) in maybe if st == "valid"}
    if not must <= got:
        return f"{label}: missing entries {must - got}; result {got}"
    extra = got - may
    if extra:
        # unspecified datagrams may be accepted: reconstruct what the library made of them
        unspec = [d for (_t, st, _p, d) in maybe if st == "unspecified"] + [d for (t, d) in arrivals if ref_parse(gen, d)[0] == "unspecified" and t <= tr]
        if not unspec:
            return f"{label}: entries {extra} do not stem from any valid datagram"
    if not out["closed"]:
        return f"{label}: datagram endpoint left open"
    s = out["sock"]
    if s is None or s.bound != ("0.0.0.0", PORT[gen]) or (1, 6, 1) not in s.opts:
        return f"{label}: socket bound to {getattr(s, 'bound', None)} with options {getattr(s, 'opts', None)}"
    return None


def grammar(max_fields, tokens=TOKENS):
    yield b""
    for n in range(1, max_fields + 1):
        for combo in itertools.product(tokens, repeat=n):
            yield b",".join(combo)


def job_grammar(job):
    gen, max_fields, shard, nshards, t_arr = job
    n = 0
    for i, data in enumerate(grammar(max_fields)):
        if i % nshards != shard:
            continue
        arrivals = [(t_arr, data)]
        out = run_search(gen, arrivals)
        n += 1
        p = judge(gen, arrivals, out)
        if p:
            return n, "grammar", p
    return n, None, None


POOL = {4: [b"192.168.1.5,AA:BB,AirTouch4,4001", b"10.0.0.9,CC:DD,AirTouch4,4002", b"192.168.1.5,AA:BB,AirTouch4,4001",
            b"HF-A11ASSISTHREAD", b"192.168.1.5,AirTouch4", b"1.2.3.4,s,AirTouch5,id,Name",
            # the right marker and number of parts, but bytes that are not text at all
            b"192.168.1.5,\xff\xfe,AirTouch4,\xc3\x28"],
        5: [b"192.168.1.5,C1,AirTouch5,5001,Home, sweet, home", b"10.0.0.9,C2,AirTouch5,5002,Other", b"192.168.1.5,C1,AirTouch5,5001,Home, sweet, home",
            b"::REQUEST-POLYAIRE-AIRTOUCH-DEVICE-INFO:;", b"192.168.1.5,C1,AirTouch5,5001", b"1.2.3.4,s,AirTouch4,id",
            # the same console under another name (renamed between two answers): a different vendor-format datagram
            b"192.168.1.5,C1,AirTouch5,5001,Renamed", b"192.168.1.5,\xff\xfe,AirTouch5,5001,\xc3\x28"]}
CORNERS = [0.0, EPS, 0.25, 0.5 - EPS, 0.5, 0.5 + EPS, 1.0 - EPS, 1.0, 1.0 + EPS, 1.5 - EPS, 1.5, 2.0]


def job_timing(job):
    gen, k, shard, nshards, remote = job
    n = 0
    i = 0
    for times in itertools.product(CORNERS, repeat=k):
        if list(times) != sorted(times):
            continue
        for datas in itertools.product(POOL[gen], repeat=k):
            i += 1
            if i % nshards != shard:
                continue
            arrivals = list(zip(times, datas))
            for tie in ("datagram", "timer"):
                out = run_search(gen, arrivals, remote_host=remote, tie_first=tie)
                n += 1
                p = judge(gen, arrivals, out, remote_host=remote)
                if p:
                    return n, "timing", p + f" (tie order: {tie} first)"
    return n, None, None


def job_discover(job):
    """pyairtouch.discover(): both generations in parallel, clients with the right model and port."""
    import pyairtouch
    remote = job
    w = Disc()
    out = {}

    async def drv():
        out["r"] = await pyairtouch.discover(remote)
    task = w.spawn(drv())
    L = w.loop
    L.settle()
    for tr in w.net.dgram:
        gen = 4 if tr.sock.bound[1] == 49004 else 5
        for d in POOL[gen][:3] + POOL[gen][3:]:
            tr.peer_datagram(d)
    L.run_until(3.0)
    if not task.done():
        return 1, "discover", "pyairtouch.discover() did not return within 3 s"
    got = sorted((a.model.name, a.host, a.airtouch_id, a.name, a._socket.port) for a in out["r"])
    exp = sorted([("AIRTOUCH_4", "192.168.1.5", "4001", "AirTouch 4", 9004), ("AIRTOUCH_4", "10.0.0.9", "4002", "AirTouch 4", 9004),
                  ("AIRTOUCH_5", "192.168.1.5", "5001", "Home, sweet, home", 9005), ("AIRTOUCH_5", "10.0.0.9", "5002", "Other", 9005), ("AIRTOUCH_5", "192.168.1.5", "5001", "Renamed", 9005)])
    if got != exp:
        return 1, "discover", f"discover({remote!r}) returned {got}, expected {exp}"
    if any(not t._closing for t in w.net.dgram):
        return 1, "discover", "a discovery endpoint was left open"
    return 1, None, None


def job_discover_timing(job):
    """pyairtouch.discover() with one valid answer per generation at every pair of corner instants: the two
    searches run side by side and neither may cost the other its result."""
    import pyairtouch
    shard, nshards, remote = job
    n = 0
    i = 0
    for t4, t5 in itertools.product(CORNERS + [None], repeat=2):
        for tie in ("datagram", "timer"):
            i += 1
            if i % nshards != shard:
                continue
            w = Disc()
            out = {}

            async def drv(out=out, w=w):
                out["r"] = await pyairtouch.discover(remote)
                out["t"] = w.loop.time()
            task = w.spawn(drv())
            L = w.loop
            L.settle()
            by_gen = {(4 if tr.sock.bound[1] == 49004 else 5): tr for tr in w.net.dgram}
            pending = sorted([(t, g) for t, g in ((t4, 4), (t5, 5)) if t is not None])
            guard = 0
            while not task.done() and guard < 10000:
                guard += 1
                if L.has_ready():
                    L.turn()
                    continue
                nd = L.next_deadline()
                nxt = pending[0][0] if pending else None
                if nxt is not None and (nd is None or nxt < nd or (nxt == nd and tie == "datagram")):
                    L.advance_to(nxt)
                    t, g = pending.pop(0)
                    by_gen[g].peer_datagram(POOL[g][0])
                    continue
                if nd is None:
                    break
                L.advance_to(nd)
                L.turn()
                while pending and pending[0][0] <= L.time():
                    t, g = pending.pop(0)
                    by_gen[g].peer_datagram(POOL[g][0])
            L.settle()
            n += 1
            label = f"discover({remote!r}) AT4 answer at {t4}, AT5 answer at {t5} (tie: {tie} first)"
            if not task.done():
                return n, "discover-timing", f"{label}: did not return"
            got = {a.model.name for a in out["r"]}
            for g, t in ((4, t4), (5, t5)):
                name = f"AIRTOUCH_{g}"
                on_grid = t is not None and any(abs(t - 0.5 * k) < EPS / 2 for k in range(0, 4))
                if t is not None and t < 1.5 and not on_grid and name not in got:
                    return n, "discover-timing", f"{label}: the {name} console answered in time but is missing from the result {sorted(got)}"
                if (t is None or t > 1.5) and name in got:
                    return n, "discover-timing", f"{label}: {name} reported although it did not answer in time"
            # each client carries the data of its own datagram (and the fixed AirTouch 4 name), whichever search finished first
            exp_by_model = {"AIRTOUCH_4": ("192.168.1.5", "4001", "AirTouch 4", 9004),
                            "AIRTOUCH_5": ("192.168.1.5", "5001", "Home, sweet, home", 9005)}
            for a in out["r"]:
                seen = (a.host, a.airtouch_id, a.name, a._socket.port)
                if seen != exp_by_model[a.model.name]:
                    return n, "discover-timing", f"{label}: the {a.model.name} client carries {seen}, its datagram said {exp_by_model[a.model.name]}"
            if len(out["r"]) != len(got):
                return n, "discover-timing", f"{label}: duplicate clients {out['r']}"
            if out["t"] > 1.5:
                return n, "discover-timing", f"{label}: returned at t={out['t']}"
            if any(not t._closing for t in w.net.dgram):
                return n, "discover-timing", f"{label}: a discovery endpoint was left open"
    return n, None, None


def _call(fn, args):
    return fn(args)


def replay_input(rp):
    return rp.get("message")


def run(tier, seed, part=None):
    chk = runner.Check("C18", tier, seed, "model_checking")
    chk.trusted_base = ["request strings and response formats from the vendor documents (AT4 v1.6 p.5, AT5 v1.2 p.5)",
                        "pvmc.vloop, pvmc.simnet.SimDatagramTransport (datagram_received outside any try block, as in CPython)",
                        "a namespace replacing the 'socket' module inside pyairtouch.comms.discovery (records bind/setsockopt)"]
    chk.assumptions = ["datagrams with empty address/serial/id fields and AT4 datagrams with more than four fields are 'unspecified': "
                       "accepted or ignored, both fine", "a datagram at exactly a request instant / the return instant may or may not count",
                       "an exception from decoding invalid text may reach the loop's exception handler; only the search outcome is judged"]
    nsh = 16
    jobs = []
    mf = 5 if tier == "quick" else 6
    for gen in (4, 5):
        for sh in range(nsh):
            jobs.append((job_grammar, (gen, mf, sh, nsh, EPS)))
        if tier == "thorough":
            for sh in range(nsh):
                jobs.append((job_grammar, (gen, 4, sh, nsh, 0.5 + EPS)))
        k = 2 if tier == "quick" else 3
        for sh in range(nsh):
            jobs.append((job_timing, (gen, k, sh, nsh, None)))
        for sh in range(4):
            jobs.append((job_timing, (gen, 1, sh, 4, "192.168.1.77")))
    for sh in range(8):
        jobs.append((job_discover_timing, (sh, 8, None)))
        jobs.append((job_discover_timing, (sh, 8, "192.168.1.77")))
    jobs.append((job_discover, None))
    jobs.append((job_discover, "192.168.1.77"))
    res = explorer.pool().starmap(_call, jobs, chunksize=1)
    total = 0
    fam = {}
    for (fn, args), (n, sig, msg) in zip(jobs, res):
        total += n
        fam[fn.__name__] = fam.get(fn.__name__, 0) + n
        if msg:
            chk.violation(f"{sig}", msg, {"kind": "input", "module": "pvmc.props.c18", "message": msg})
    chk.counters["states"] = total
    chk.counters["transitions"] = total
    chk.counters["executions"] = total
    chk.cov["by_family"] = fam
    chk.samples += [{"datagram": "192.168.1.5,C1,AirTouch5,5001,Home, sweet, home", "arrival": 0.5 - EPS},
                    {"datagram": ",a,AirTouch4,\\xff", "arrival": EPS}]
    return chk.finish({"rule": "one execution of the real search()/discover() per (datagram contents, arrival instants, tie order)"})
