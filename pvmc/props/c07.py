"""C07 - the connection heals itself, never wedges, and stays single (DESIGN §6 C07)."""
from __future__ import annotations

import asyncio

from .. import explorer, runner, worlds
from ..ref import framing
from ..vloop import EPS

SPEC = "pvmc.props.c07:Scenario"
HEAL_BOUND = 2.0 + EPS      # retry delay + epsilon
PROBE_GAP = 1.0


def _msgs(gen):
    """(ok message factory, {kind: unencodable message}, probe frame bytes, request message)."""
    if gen == 4:
        import pyairtouch.at4.comms.x1F_ext as ext
        import pyairtouch.at4.comms.x1FFF11_ac_ability as abil
        import pyairtouch.at4.comms.x2A_group_ctrl as gc_
        import pyairtouch.at4.comms.x2B_group_status as gs

        def ok(i):
            return gc_.GroupControlMessage(i, gc_.GroupPowerControl.TURN_ON, gc_.GroupControlMethod.UNCHANGED, None)
        bad = {
            "struct": gc_.GroupControlMessage(1, gc_.GroupPowerControl.UNCHANGED, gc_.GroupControlMethod.TEMPERATURE,
                                              gc_.GroupSetPointControl(1000)),
            "value": ext.ExtendedMessage(abil.AcAbilityRequest(ac_number=300)),
            # a wrongly typed field: the encoder fails with an exception type nobody listed (AttributeError)
            "attr": gc_.GroupControlMessage(1, "on", gc_.GroupControlMethod.UNCHANGED, None),
        }
        request = gs.GroupStatusRequest()
        # an AC status frame with one AC (8 bytes) from the console
        probe = framing.at4_frame(0xB0, 0x80, 1, 0x2B, bytes([0x40, 0x64, 0x00, 0x00, 0xFF, 0x00]))
        garbage = bytes(range(10))
    else:
        import pyairtouch.at5.comms.x1F_ext as ext
        import pyairtouch.at5.comms.x1FFF11_ac_ability as abil
        import pyairtouch.at5.comms.xC0_ctrl_status as c0
        import pyairtouch.at5.comms.xC020_zone_ctrl as zc
        import pyairtouch.at5.comms.xC021_zone_status as zs

        def ok(i):
            return c0.ControlStatusMessage(zc.ZoneControlMessage(
                [zc.ZoneControlData(i, zc.ZonePowerControl.TURN_ON, None)]))
        bad = {
            "struct": c0.ControlStatusMessage(zc.ZoneControlMessage(
                [zc.ZoneControlData(1, zc.ZonePowerControl.UNCHANGED, zc.ZoneSetPointControl(100.0))])),
            "value": ext.ExtendedMessage(abil.AcAbilityRequest(ac_number=300)),
            "attr": c0.ControlStatusMessage(zc.ZoneControlMessage([zc.ZoneControlData(1, "on", None)])),
        }
        request = c0.ControlStatusMessage(zs.ZoneStatusRequest())
        probe = framing.at5_frame(0xB0, 0x80, 1, 0xC0,
                                  bytes([0x21, 0, 0, 0, 0, 8, 0, 1, 0x40, 0x80, 0x96, 0x80, 0x02, 0xE7, 0, 0]))
        garbage = bytes(range(24))
    return ok, bad, probe, request, garbage


class _OrdSet(set):
    """A set whose iteration order is fixed (by the callables' qualified names, forwards or backwards) instead of by
    object addresses: whatever the library does with its subscriber sets - as_completed, gather, a TaskGroup - the
    sibling order is the harness's choice and the same in every process."""
    reverse = False

    def __iter__(self):
        return iter(sorted(set.__iter__(self), key=lambda f: getattr(f, "__qualname__", repr(f)), reverse=self.reverse))


class _OrdSetRev(_OrdSet):
    reverse = True


class _Unregistered:
    message_id = 0x77

    def __repr__(self):
        return "_Unregistered()"


class Scenario(worlds.World):
    def __init__(self, params):
        super().__init__()
        import pyairtouch.comms.socket as S
        self.S = S
        self.p = params
        self.gen = params["gen"]
        self.reg = worlds.fresh_registry(self.gen)
        self.ok, self.bad, self.probe, self.request, self.garbage = _msgs(self.gen)
        self.badcrc = self.probe[:-1] + bytes([self.probe[-1] ^ 1])
        if self.gen == 4:
            self.poison = framing.at4_frame(0xB0, 0x80, 2, 0x2B, bytes([0x80, 0x64, 0x00, 0x00, 0xFF, 0x00]))
        else:
            self.poison = framing.at5_frame(0xB0, 0x80, 2, 0xC0, bytes([0x21, 0, 0, 0, 0, 8, 0, 1, 0x80, 0x80, 0x96, 0x80, 0x02, 0xE7, 0, 0]))
        self.trunc = self.probe[:len(self.probe) - 3]
        self.sock = S.AirTouchSocket(self.loop, "console", 9000 + self.gen, self.reg)
        self.delivered = 0
        self.raise_on = False
        self.nsend = 0
        self.pos = 0
        self.used_bad = set()
        self.max_send = params.get("max_send", 2)
        self.bad_kinds = params.get("bad_kinds", ["struct", "value", "unregistered", "attr"])
        self.viol = None

        async def on_message(hdr, msg):
            self.delivered += 1
            self.note("delivered", type(msg).__name__)
            if self.raise_on:
                for _ in range(params.get("raise_after", 0)):
                    await asyncio.sleep(0)          # a subscriber that fails late, while its siblings are in the middle of things
                raise RuntimeError("subscriber failure (message)")
        on_message.__qualname__ = "c07.on_message"

        async def on_connection(*, connected):
            self.note("connected" if connected else "disconnected")
            if connected and not params.get("quiet_subscriber"):
                await self.sock.send(self.request, S.RETRY_CONNECTED)
            if self.raise_on and params.get("conn_raises", True):
                raise RuntimeError("subscriber failure (connection)")
        on_connection.__qualname__ = "c07.on_connection"

        async def on_message_reactive(hdr, msg):
            # a second message subscriber that answers every frame with a request of its own, as the API layer does at
            # every step of its handshake (never raises)
            await self.sock.send(self.request, S.RETRY_CONNECTED)
        on_message_reactive.__qualname__ = "c07.on_message_reactive"

        for attr in ("_message_subscribers", "_connection_subscribers"):
            if type(getattr(self.sock, attr, None)) is set:
                setattr(self.sock, attr, (_OrdSetRev if params.get("sub_rev") else _OrdSet)())
        self.sock.subscribe_on_message_received(on_message)
        if params.get("reactive"):
            self.sock.subscribe_on_message_received(on_message_reactive)
        self.sock.subscribe_on_connection_changed(on_connection)
        self.roots = [self.sock]
        self.spawn(self.sock.open_socket())

    # ---- explorer interface ------------------------------------------------------------------
    def kind(self, a):
        return a[0] if a[0] in ("run", "tick") else "env"

    def enabled(self):
        acts = []
        ready = self.loop.has_ready()
        script = self.p.get("script")
        if script is not None:
            # backbone mode: the environment events come in a fixed order; what is explored is where each of them
            # lands relative to the client's reaction (any turn boundary = one deviation)
            if ready:
                acts.append(("run",))
            if self.pos < len(script):
                nxt = tuple(script[self.pos])
                ok = {"accept": bool(self.net.pending), "refuse": bool(self.net.pending), "accept_failing": bool(self.net.pending),
                      "eof": bool(self.net.live()), "reset": bool(self.net.live()), "failw": bool(self.net.live()),
                      "stall": bool(self.net.live()), "resume": bool(self.net.stalled()), "frame": bool(self.net.live()),
                      "partial": bool(self.net.live()), "rest-reset": bool(self.net.live()), "rest": bool(self.net.live()),
                      "app-reset": True,
                      "tick": not ready and self.loop.next_deadline() is not None}.get(nxt[0], True)
                if ok:
                    acts.append(nxt)
                elif not ready and self.loop.next_deadline() is not None and nxt[0] != "tick":
                    acts.append(("tick",))
            return acts
        if ready:
            acts.append(("run",))
        elif self.loop.next_deadline() is not None:
            acts.append(("tick",))
        if self.net.pending:
            acts += [("accept",), ("refuse",)]
            if self.p.get("unreachable", True):
                acts.append(("unreachable",))        # the attempt fails with EHOSTUNREACH: an OSError, not a ConnectionError
        live = self.net.live()
        if live:
            acts += [("eof",), ("reset",), ("linkerr",), ("garbage",), ("badcrc",), ("poison",), ("trunc_eof",), ("frame",)]
            if live[-1].fail_after is None:
                acts.append(("failw",))
        if self.nsend < self.max_send:
            acts.append(("send",))
        for k in self.bad_kinds:
            if k not in self.used_bad:
                acts.append(("sendbad", k))
        if not self.raise_on and self.p.get("raising", True):
            acts.append(("raise_on",))
        return acts

    def do(self, a):
        L = self.loop
        op = a[0]
        if self.p.get("script") is not None and op != "run" and self.pos < len(self.p["script"]) and tuple(self.p["script"][self.pos]) == tuple(a):
            self.pos += 1
        if op == "run":
            L.turn()
        elif op == "tick":
            L.advance_to(L.next_deadline())
            L.turn()
        elif op in ("accept", "refuse"):
            self.net.resolve(op == "accept")
        elif op == "unreachable":
            self.net.resolve(False, exc=OSError(113, "sim: no route to host"))
        elif op == "eof":
            self.net.live()[-1].peer_eof()
        elif op == "reset":
            self.net.live()[-1].peer_reset()
        elif op == "linkerr":
            self.net.live()[-1].peer_reset(OSError(113, "sim: no route to host"))
        elif op == "garbage":
            self.net.live()[-1].peer_send(self.garbage)
        elif op == "badcrc":
            self.net.live()[-1].peer_send(self.badcrc)
        elif op == "poison":
            # well-formed frame, good CRC, but a field value the decoder's enum does not know (ValueError,
            # not DecodeError): "undecodable input"
            self.net.live()[-1].peer_send(self.poison)
        elif op == "trunc_eof":
            t = self.net.live()[-1]
            t.peer_send(self.trunc)
            t.peer_eof()
        elif op == "frame":
            self.net.live()[-1].peer_send(self.probe)
        elif op == "failw":
            self.net.live()[-1].fail_after = 0
        elif op == "accept_failing":
            def arm(t):
                t.fail_after = 0
                self.net.on_open = None
            self.net.on_open = arm
            self.net.resolve(True)
        elif op == "partial":
            # the first part of an intact frame (header and two bytes of payload): the read task parks inside the frame
            k = (8 if self.gen == 4 else 20) + 2
            self.net.live()[-1].peer_send(self.probe[:k])
        elif op in ("rest", "rest-reset"):
            k = (8 if self.gen == 4 else 20) + 2
            self.net.live()[-1].peer_send(self.probe[k:])
            if op == "rest-reset":
                # ... and in the same loop iteration somebody else (the heartbeat manager does this) resets the connection
                self.spawn(self.sock.reset_connection())
        elif op == "app-reset":
            self.spawn(self.sock.reset_connection())
        elif op == "stall":
            self.net.live()[-1].pause()
        elif op == "resume":
            self.net.stalled()[-1].resume()
        elif op == "send":
            self.nsend += 1
            self.spawn(self._send(self.ok(self.nsend), f"ok{self.nsend}"))
        elif op == "sendbad":
            self.used_bad.add(a[1])
            self.spawn(self._sendbad(a[1]))
        elif op == "raise_on":
            self.raise_on = True
        else:
            raise explorer.HarnessError(f"unknown action {a!r}")

    async def _send(self, m, tag):
        try:
            await self.sock.send(m, self.S.RETRY_IDEMPOTENT)
            self.note("send_returned", tag)
        except Exception as e:  # noqa: BLE001 - the driver records whatever the call raises
            self.note("send_raised", tag, type(e).__name__)

    async def _sendbad(self, k):
        try:
            if k == "unregistered":
                m = _Unregistered()
                hdr = self.reg.header_factory.create_from_message(self.ok(0), 0)
                await self.sock.send_with_header(hdr, m, self.S.RETRY_IDEMPOTENT)
            else:
                await self.sock.send(self.bad[k], self.S.RETRY_IDEMPOTENT)
            self.note("send_returned", "bad-" + k)
        except Exception as e:  # noqa: BLE001
            self.note("send_raised", "bad-" + k, type(e).__name__)

    def step_check(self):
        # open = the socket still exists on the client's side: not closed, or closed but lingering on unsent bytes
        # (the console still sees that connection)
        held = [t for t in self.net.conns if not t._conn_lost]
        n = len(held)
        if n > 1:
            return {"clause": "single-connection",
                    "signature": "two-open-connections",
                    "message": f"{n} connections held open at t={self.loop.time()}: "
                               f"{[(t.cid, 'closing, unsent bytes' if t.linger else 'open') for t in held]}"}
        for t in self.net.conns:
            if t.closed_by == "gc":
                return {"clause": "abandoned-connection-closed",
                        "signature": "abandoned-connection-left-to-gc",
                        "message": f"connection {t.cid} was abandoned without being closed "
                                   "(only StreamWriter.__del__ closed it)"}
        return None

    def fp_extra(self):
        return (worlds.net_state(self.net), self.nsend, tuple(sorted(self.used_bad)), self.raise_on, self.pos)

    def outcome(self):
        return repr((len(self.net.conns), self.delivered, self.sock.is_connected,
                     tuple(e[1] for e in self.obs)))[:400]

    # ---- end-of-script oracle: the network behaves from now on ------------------------------
    def _v(self, clause, msg):
        return {"clause": clause, "signature": clause, "message": msg}

    def finish(self):
        L = self.loop
        net = self.net
        t0 = L.time()
        self.raise_on = False
        net.auto = "accept"
        for t in net.conns:
            t.fail_after = None
            if t.paused:
                t.resume()
        net.resolve_all(True)
        bad = []

        def chk():
            v = self.step_check()
            if v and not bad:
                bad.append(v)
        L.run_until(t0 + HEAL_BOUND, on_turn=chk)
        if bad:
            return bad[0]
        if len(net.live()) != 1 or not self.sock.is_connected:
            return self._v("heals-connected",
                           f"not connected {HEAL_BOUND}s after the network behaves again "
                           f"(live={len(net.live())}, is_connected={self.sock.is_connected}, "
                           f"pending_connects={len(net.pending)})")
        # receiving: up to three probes, 1 s apart
        got = False
        for i in range(3):
            live = net.live()
            if len(live) != 1:
                return self._v("heals-connected", f"connection lost again while probing (live={len(live)})")
            d0 = self.delivered
            live[0].peer_send(self.probe)
            L.run_until(L.time() + PROBE_GAP, on_turn=chk)
            if bad:
                return bad[0]
            if self.delivered > d0:
                got = True
                break
            L.run_until(L.time() + HEAL_BOUND, on_turn=chk)
        if not got:
            return self._v("still-receiving", "three intact status frames sent after the network "
                                              "behaves again, none delivered to the subscriber")
        # transmitting
        live = net.live()
        if len(live) != 1:
            return self._v("heals-connected", f"no single live connection before the probe command (live={len(live)})")
        w0 = len(net.log)
        self.spawn(self._send(self.ok(9), "probe-cmd"))
        L.run_until(L.time() + PROBE_GAP, on_turn=chk)
        if bad:
            return bad[0]
        expect = self._expected_probe_payload()
        wrote = b"".join(e[3] for e in net.log[w0:] if e[1] == "write" and e[2] == live[0].cid)
        if expect not in wrote:
            return self._v("still-transmitting", "a command submitted after the network behaves again "
                                                 "was not written on the live connection")
        frs, residue, err = framing.split(self.gen, wrote)
        if err or residue or len(frs) != 1 or not frs[0].crc_ok or frs[0].data != expect:
            return self._v("still-transmitting", f"the bytes written for a command submitted after the network behaves again are not "
                                                 f"that command's frame: {wrote.hex()} ({err or ''} {len(frs)} frame(s), {len(residue or b'')} residual bytes)")
        if len(net.live()) != 1:
            return self._v("single-connection", f"{len(net.live())} live connections at the end")
        # (only when run on behalf of C14, whose refresh hangs on it) the application has been told: the last connection
        # notification says connected, and it was issued for the connection that is live now
        notes = [(o[0], o[1]) for o in self.obs if o[1] in ("connected", "disconnected")]
        if self.p.get("notify_clause") and (not notes or notes[-1][1] != "connected" or notes[-1][0] < net.live()[0].opened_at):
            return self._v("connected-notification", f"connection {net.live()[0].cid} has been up since t={net.live()[0].opened_at} and works, "
                                                     f"but the last connection notifications were {notes[-3:]}")
        reports = self.loop_reports()
        if reports:
            return self._v("no-unhandled-exception", f"event loop exception handler got: {reports[:2]}")
        n1 = len(asyncio.all_tasks(L))
        L.run_until(L.time() + 10.0, on_turn=chk)
        if bad:
            return bad[0]
        n2 = len(asyncio.all_tasks(L))
        if n2 > n1 or n2 > 4:
            return self._v("background-tasks-bounded", f"task count grows or is large: {n1} -> {n2}")
        return None

    def _expected_probe_payload(self):
        if self.gen == 4:
            return bytes([9, 0x03, 0x00, 0x00])
        return bytes([0x20, 0, 0, 0, 0, 4, 0, 1, 9, 0x03, 0xFF, 0x00])


SCRIPTS = {
    "stalled-stream-given-up": [["accept"], ["stall"], ["send"], ["eof"], ["tick"], ["accept"], ["resume"]],
    "stalled-stream-reset": [["accept"], ["stall"], ["send"], ["send"], ["reset"], ["accept"]],
    "lingering-close-meets-stale-retry/quiet": [["send"], ["accept_failing"], ["accept"], ["stall"], ["send"], ["eof"], ["tick"], ["accept"], ["resume"]],
    "lingering-close-meets-stale-retry": [["send"], ["accept_failing"], ["accept"], ["stall"], ["send"], ["eof"], ["tick"], ["accept"], ["resume"]],
    # a reset requested by another task while the read task is parked in the middle of a frame
    "reset-meets-half-read-frame": [["accept"], ["partial"], ["rest-reset"], ["accept"]],
    "reset-while-parked-in-frame": [["accept"], ["partial"], ["app-reset"], ["accept"], ["frame"]],
}
QUICK = [(5, 0), (4, 1), (3, 2)]
THOROUGH = [(8, 0), (6, 1), (5, 2)]


def run(tier, seed, part=None):
    chk = runner.Check("C07", tier, seed, "model_checking")
    chk.trusted_base = ["CPython 3.12 asyncio (tasks, streams, timeouts) unmodified", "pvmc.vloop.VLoop",
                        "pvmc.simnet.SimTransport (validated against loopback TCP by ./check selftest)",
                        "pvmc.ref.framing (vendor documents + docs/design.md outer header)"]
    chk.assumptions = ["single console endpoint; faults limited to the menu in DESIGN §6 C07",
                       "CPython refcounting finalises an overwritten StreamWriter immediately"]
    stair = QUICK if tier == "quick" else THOROUGH
    cap = 50 if tier == "quick" else 300
    for gen in (4, 5):
        for depth, dev in stair:
            params = {"gen": gen}
            res = explorer.explore(SPEC, params, depth, dev, time_cap=cap, seed=seed,
                                   label=f"at{gen}/d{depth}/v{dev}")
            chk.add_explorer(f"at{gen}", SPEC, params, res, {"depth": depth, "deviations": dev})
        # a client whose connection subscriber does not itself send: whatever is queued is drained by the
        # connect task alone (a subscriber's own send otherwise absorbs what the drain raises)
        depth, dev = (4, 1) if tier == "quick" else (6, 1)
        params = {"gen": gen, "quiet_subscriber": True, "raising": False}
        res = explorer.explore(SPEC, params, depth, dev, time_cap=cap, seed=seed, label=f"at{gen}/quiet/d{depth}/v{dev}")
        chk.add_explorer(f"at{gen}/quiet-subscriber", SPEC, params, res, {"depth": depth, "deviations": dev, "quiet_subscriber": True})
        # a subscriber that raises next to one that transmits in reaction to the same frame, and that write fails
        depth, dev = (4, 1) if tier == "quick" else (6, 1)
        for rev in (False, True):
            params = {"gen": gen, "reactive": True, "bad_kinds": [], "unreachable": False, "sub_rev": rev, "raise_after": 3 if rev else 0}
            res = explorer.explore(SPEC, params, depth, dev, time_cap=cap, seed=seed, label=f"at{gen}/reactive/d{depth}/v{dev}/rev{rev}")
            chk.add_explorer(f"at{gen}/reactive-subscriber" + ("/reverse-order" if rev else ""), SPEC, params, res,
                             {"depth": depth, "deviations": dev, "reactive": True, "sibling_order_reversed": rev})
        # the same with only the *message* subscriber failing (the connection subscriber behaves), at every distance
        # between the failure and the sibling's write error: whatever the library uses to run siblings - and whatever
        # that does to the others when one of them fails - the sibling's reset must run to its re-connection
        for rev in (False, True):
            for ra in (0, 1, 2):
                params = {"gen": gen, "reactive": True, "bad_kinds": [], "unreachable": False, "sub_rev": rev, "raise_after": ra,
                          "conn_raises": False}
                res = explorer.explore(SPEC, params, depth, dev, time_cap=cap, seed=seed, label=f"at{gen}/reactive-msgonly/d{depth}/v{dev}/rev{rev}/ra{ra}")
                chk.add_explorer(f"at{gen}/reactive-subscriber/only-message-subscriber-fails/after{ra}" + ("/reverse-order" if rev else ""), SPEC, params, res,
                                 {"depth": depth, "deviations": dev, "reactive": True, "sibling_order_reversed": rev, "raise_after_yields": ra,
                                  "connection_subscriber_raises": False})
        # backbone scripts around back-pressure: a stream that stalls, is given up by the client and lingers in
        # close() on its unsent bytes while the rest of the client moves on
        for name, script in SCRIPTS.items():
            params = {"gen": gen, "script": script, "quiet_subscriber": name.endswith("/quiet"), "max_send": 9}
            res = explorer.explore(SPEC, params, len(script), 1 if tier == "quick" else 2, time_cap=cap, seed=seed, label=f"at{gen}/script/{name}")
            chk.add_explorer(f"at{gen}/script/{name}", SPEC, params, res, {"script": script, "deviations": 1 if tier == "quick" else 2})
    chk.add_audit(SPEC, {"gen": 4}, 3, 1, limit=6000 if tier == "thorough" else 600)
    chk.add_audit(SPEC, {"gen": 5}, 3, 1, limit=6000 if tier == "thorough" else 600)
    return chk.finish()
