"""C08 - heartbeat detects a dead link, and only a dead link (DESIGN §6 C08)."""
from __future__ import annotations

from .. import apiworld, console, explorer, runner, worlds
from ..ref import at4, framing
from ..vloop import EPS

SPEC = "pvmc.props.c08:Scenario"


class Scenario(apiworld.ApiWorld):
    """mode 'api': full AirTouch4/5 after init() (interval 300, timeout 330).
    mode 'bare': HeartbeatManager + socket with a custom (interval, timeout)."""

    def __init__(self, params):
        gen = params["gen"]
        super().__init__(gen, console.default_installation(gen, 1, (1,)), auto=True, net_auto="accept")
        self.p = params
        self.interval, self.timeout = params.get("config", (300.0, 330.0))
        self.max_beats = params.get("beats", 3)
        self.used = {"eof": 0, "noise": 0, "unsolicited": 0, "outage": 0}
        self.outage_until = None
        self.sent_responses = []        # times at which the console sent a version message
        self.faults = []                # (time, cid) environment faults
        self.console.answer_hook = self._hook
        self.pending_version = []       # version requests not answered yet: (time, pid)
        self.nreq = 0
        self.auto_versions = 1 if params.get("mode", "api") == "api" else 0   # the handshake's own request
        self.auto_versions = 0 if params.get("mode", "api") == "bare" else 1
        if params.get("mode") == "api-second-life":
            self.auto_versions = 99         # the first life is served without interference
        if params.get("mode", "api") == "api":
            r = self.init_now(horizon=0.0)
            assert r and r[1] is True, f"init failed: {r}"
            self.loop.settle()
            self.mon_start = self.loop.time()
        elif params.get("mode") == "api-second-life":
            # the application has used this client before: init(), 100 s of service, shutdown(), and init() again.  The
            # second life is monitored exactly like a first one, counted from ITS start
            r = self.init_now(horizon=0.0)
            assert r and r[1] is True, f"init failed: {r}"
            self.loop.run_until(100.0)
            self.spawn(self.at.shutdown())
            self.loop.run_until(101.0)
            self.init_result.clear()
            self.auto_versions = 1          # the second handshake's own request; from then on the environment decides
            r = self.init_now(horizon=1.0)
            assert r and r[1] is True, f"second init failed: {r}"
            self.loop.settle()
            self.mon_start = r[2]           # the instant the second init() returned
        elif params.get("mode") == "api-late":
            # the console is unreachable when init() is called: init() gives up after 5 s and returns False,
            # the socket keeps trying, the console comes up at 6.5 s and the handshake completes on its own -
            # "once initialised" starts there
            self.net.auto = "refuse"
            r = self.init_now(horizon=6.5)
            assert r and r[1] is False, f"init against an unreachable console: {r}"
            self.net.auto = "accept"
            self.loop.run_until(8.0)
            self.loop.settle()
            assert self.at.initialised, "handshake did not complete after the console came up"
            self.mon_start = self.loop.time()
        else:
            import pyairtouch.comms.heartbeat as hb
            import pyairtouch.comms.socket as S
            ext, ver = self._mods()
            self.sock = S.AirTouchSocket(self.loop, "console", 9000 + gen, worlds.registry(gen))

            def match(m):
                return isinstance(m, ext.ExtendedMessage) and m.sub_message.message_id == ver.MESSAGE_ID
            self.hb = hb.HeartbeatManager(self.loop, self.sock, hb.HeartbeatConfig(
                message=ext.ExtendedMessage(ver.ConsoleVersionRequest()), response_match=match,
                interval=self.interval, timeout=self.timeout))
            self.roots = [self.sock, self.hb]
            self.spawn(self.sock.open_socket())
            self.loop.settle()
            self.spawn(self.hb.start())
            self.loop.settle()
            self.mon_start = self.loop.time()
        self.t_end = self.mon_start + (self.max_beats - 1) * self.interval + 2 * self.timeout + 1.0
        # every heartbeat request (including the first, sent when monitoring starts) is answered by
        # the environment only

    def _mods(self):
        if self.gen == 4:
            import pyairtouch.at4.comms.x1F_ext as ext
            import pyairtouch.at4.comms.x1FFF30_console_ver as ver
        else:
            import pyairtouch.at5.comms.x1F_ext as ext
            import pyairtouch.at5.comms.x1FFF30_console_ver as ver
        return ext, ver

    def _hook(self, kind, fr, answers):
        if kind == "req-version":
            if self.auto_versions > 0:
                self.auto_versions -= 1
                return answers
            self.nreq += 1
            if self.nreq <= self.max_beats:      # later requests simply stay unanswered
                self.pending_version.append((self.loop.time(), fr.pid))
            return []
        return answers

    # ---- explorer interface ----------------------------------------------------------------
    def kind(self, a):
        return a[0] if a[0] in ("run", "tick") else "env"

    def corners(self):
        """Instants (before the next loop timer) at which the pending version request may be answered."""
        now = self.loop.time()
        nd = self.loop.next_deadline()
        out = []
        cands = []
        for (t, _pid) in self.pending_version[-1:]:
            cands += [t + 30.0 - EPS, t + 30.0, t + 30.0 + EPS, t + self.interval - EPS]
        d = self.model_deadline()
        if d is not None:
            cands += [d - EPS, d]
        for c in cands:
            if c > now and (nd is None or c <= nd) and c not in out:
                out.append(c)
        return out[:5]

    def side(self, k):
        sd = self.p.get("side", 1)
        if isinstance(sd, dict):
            return sd.get(k, 0)
        return 0 if k == "outage" else sd

    def enabled(self):
        acts = []
        ready = self.loop.has_ready()
        if self.loop.time() >= self.t_end:
            return [("run",)] if ready else []
        if ready:
            return [("run",)]
        # with no timer armed at all the clock still runs: idle to the horizon (a client that armed nothing
        # is judged there like any other)
        acts.append(("tick",))
        if self.net.live():
            if self.pending_version:
                acts.append(("answer",))
                for c in self.corners():
                    acts.append(("answer_at", c))
            elif self.used["unsolicited"] < self.side("unsolicited"):
                acts.append(("answer",))
            if self.used["noise"] < self.side("noise"):
                acts.append(("noise",))
            if self.used["eof"] < self.side("eof"):
                acts.append(("eof",))
            if self.used["outage"] < self.side("outage"):
                acts.append(("outage",))      # link lost and the console unreachable for longer than the timeout
        return acts

    def do(self, a):
        L = self.loop
        op = a[0]
        if self.outage_until is not None and L.time() >= self.outage_until:
            self.outage_until = None
            self.net.auto = "accept"
        if op == "run":
            L.turn()
        elif op == "tick":
            nd = L.next_deadline()
            L.advance_to(self.t_end if nd is None else min(nd, self.t_end))
            if self.outage_until is not None and L.time() >= self.outage_until:
                self.outage_until = None
                self.net.auto = "accept"
            L.turn()
        elif op == "outage":
            self.used["outage"] += 1
            t = self.net.live()[-1]
            self.faults.append((L.time(), t.cid))
            self.net.auto = "refuse"
            self.outage_until = L.time() + self.timeout + 1.0
            self.t_end = max(self.t_end, self.outage_until + 2 * self.timeout + 3.0)
            t.peer_eof()
        elif op in ("answer", "answer_at"):
            if op == "answer_at":
                L.advance_to(a[1])
            if self.pending_version:
                pid = self.pending_version.pop(0)[1]
            else:
                self.used["unsolicited"] += 1
                pid = 0
            self.console.send_raw(self.console.version_frame(pid))
            self.sent_responses.append(L.time())
        elif op == "noise":
            # frames that must NOT count as a heartbeat response: a status frame and an extended
            # message that is not the console version (error information)
            self.used["noise"] += 1
            self.console.send_raw(self.console.ac_status_frame())
            self.console.send_raw(self.console.error_frame(0))
        elif op == "eof":
            self.used["eof"] += 1
            t = self.net.live()[-1]
            self.faults.append((L.time(), t.cid))
            t.peer_eof()
        else:
            raise explorer.HarnessError(f"unknown action {a!r}")

    # ---- reference model -------------------------------------------------------------------------
    def conn_up(self, t, strict_before=True):
        """Was a connection open (from the client's point of view) just before time t?"""
        for c in self.net.conns:
            end = None
            for e in self.net.log:
                if e[1] in ("close", "abort") and e[2] == c.cid:
                    end = e[0]
                    break
            if c.opened_at < t and (end is None or end >= t):
                return c.cid
        return None

    def model(self):
        """-> (expected reset instants [(D, strict)], next deadline, tie_seen).  The deadline counts from
        the start of monitoring, from the last response, and again from every expiry."""
        now = self.loop.time()
        last = self.mon_start
        resp = sorted(t for t in self.sent_responses if t >= self.mon_start)
        expected = []
        tie = None
        while True:
            d = last + self.timeout
            nxt = [r for r in resp if last < r <= d]
            if nxt:
                if nxt[0] == d:
                    tie = d          # an answer exactly at the deadline: either outcome, nothing is required afterwards
                    return expected, None, tie
                last = nxt[0]
                continue
            if d > now:
                return expected, d, tie
            expected.append(d)
            last = d

    def model_deadline(self):
        return self.model()[1]

    def step_check(self):
        expected, _nd, tie = self.model()
        now = self.loop.time()
        closes = [(e[0], e[2]) for e in self.net.log if e[1] == "close" and e[3] == "client"]
        # (2) every expired deadline with a live connection => client closed it at that instant and re-connects
        for d in expected:
            if d == now and self.loop.has_ready():
                continue            # the reaction is still running
            cid = self.conn_up(d)
            if cid is None:
                continue
            if any(abs(ft - d) < 2 * EPS for ft, _c in self.faults):
                continue
            if not any(t == d and c == cid for t, c in closes):
                return {"clause": "silence-resets-connection", "signature": "missed-heartbeat-timeout",
                        "message": f"no version response for {self.timeout}s up to t={d} (monitoring since {self.mon_start}, "
                                   f"responses at {self.sent_responses}), connection {cid} open, but it was not reset at t={d}"}
            if not any(e[1] == "attempt" and e[0] == d for e in self.net.log):
                return {"clause": "reset-reconnects", "signature": "no-reconnect-after-heartbeat-reset",
                        "message": f"connection closed at t={d} but no connect attempt followed at that instant"}
        # (3) no reset that the model does not explain
        if tie is None:
            for (t, cid) in closes:
                if t < self.mon_start:
                    continue
                if any(t == d for d in expected):
                    continue
                if any(fc == cid and ft <= t for ft, fc in self.faults):
                    continue
                return {"clause": "answered-heartbeats-never-reset", "signature": "spurious-reset",
                        "message": f"client closed connection {cid} at t={t}; responses at {self.sent_responses}, "
                                   f"model deadlines expired at {expected}, no link fault"}
        # (1) version requests exactly at mon_start + k*interval while connected, and only then
        reqs = [(r[0], r[1]) for r in self.console.requests if r[2] == "req-version" and r[0] >= self.mon_start]
        k = 0
        while True:
            tk = self.mon_start + k * self.interval
            if tk > now or (tk == now and self.loop.has_ready()) or (tie is not None and tk >= tie):
                break
            up = self.conn_up(tk) is not None or k == 0
            ambiguous = any(abs(ft - tk) < 2 * EPS for ft, _c in self.faults) or any(abs(d - tk) < 2 * EPS for d in expected)
            got = [r for r in reqs if r[0] == tk]
            if up and not got and not ambiguous:
                return {"clause": "periodic-version-request", "signature": "missing-heartbeat-request",
                        "message": f"no version request at t={tk} (start {self.mon_start} + {k} x {self.interval}) although connected"}
            k += 1
        for (t, _cid) in reqs:
            q = (t - self.mon_start) / self.interval
            if abs(q - round(q)) > 1e-9:
                return {"clause": "periodic-version-request", "signature": "unexpected-version-request",
                        "message": f"version request at t={t}, not on the {self.interval}s grid from {self.mon_start}"}
        return None

    def finish(self):
        if self.loop.time() < self.t_end:
            return None
        return self.step_check()

    def fp_extra(self):
        now = self.loop.time()
        return (worlds.net_state(self.net), tuple(sorted(self.used.items())), None if self.outage_until is None else round(self.outage_until - now, 6),
                tuple(round(t - now, 6) for t in self.sent_responses[-3:]),
                tuple(round(t - now, 6) for t, _ in self.pending_version), round(self.t_end - now, 6),
                tuple(round(t - now, 6) for t, _ in self.faults))

    def outcome(self):
        closes = [(e[0], e[2]) for e in self.net.log if e[1] == "close"]
        return repr((closes, [round(r[0], 3) for r in self.console.requests if r[2] == "req-version"]))


def lingering_close_cases(chk):
    """The one piece of back-pressure C08 looks at (outside the timed model): the link goes silent AND stalled, the
    heartbeat deadline resets it, and the close of the old stream lingers on its unsent bytes for longer than any
    heartbeat period.  However long that takes, once the old stream is gone the connection is re-established and the
    heartbeat goes on."""
    from . import sockcommon
    import pyairtouch.comms.socket as S
    n = 0
    for gen in (4, 5):
        for linger in (1.0, 29.0, 31.0, 100.0):
            w = Scenario({"gen": gen, "mode": "bare", "config": [10.0, 15.0], "beats": 99, "side": 0})
            L = w.loop
            w.do(("answer",))
            L.settle()
            t = w.net.live()[-1]
            t.pause()
            L.settle()
            msg = sockcommon.catalogue(gen)[0][0][1]

            async def user_send(w=w, msg=msg):
                try:
                    await w.sock.send(msg, S.RETRY_IDEMPOTENT)
                except Exception:  # noqa: BLE001
                    pass
            w.spawn(user_send())
            L.run_until(15.0 + linger)
            n += 1
            chk.counters["executions"] += 1
            label = f"at{gen}: silent and stalled link, heartbeat reset at t=15, old stream gone {linger} s later"
            closes = [e[0] for e in w.net.log if e[1] == "close" and e[3] == "client"]
            problem = None
            if closes != [15.0]:
                problem = f"client closes at {closes}, expected the heartbeat reset at t=15.0"
            else:
                t.resume()
                L.run_until(15.0 + linger + 12.0)
                if len(w.net.conns) < 2:
                    problem = f"no new connection within 12 s after the old stream was gone (connections opened: {len(w.net.conns)})"
                else:
                    vers = [r[0] for r in w.console.requests if r[2] == "req-version" and r[1] == w.net.conns[1].cid]
                    if not vers:
                        problem = "re-connected, but no version request on the new connection within 12 s (the heartbeat has stopped)"
            if problem:
                chk.violation(f"at{gen}:lingering-close", f"{label}: {problem}",
                              {"kind": "input", "module": "pvmc.props.c08", "gen": gen, "linger": linger})
    chk.cov["lingering_close_cases"] = n


def replay_input(rp):
    c = runner.Check("C08", "quick", 0, "model_checking")
    lingering_close_cases(c)
    for s_, r in c.violations.items():
        return r["message"]
    return None


def run(tier, seed, part=None):
    chk = runner.Check("C08", tier, seed, "model_checking")
    chk.trusted_base = ["CPython 3.12 asyncio unmodified (asyncio.timeout, Event, gather)", "pvmc.vloop.VLoop", "pvmc.simnet",
                        "pvmc.console.SimConsole"]
    chk.assumptions = ["answers are placed at timed-automaton corners of the 30 s response delay and of the model deadline "
                       "(d-eps, d) plus every loop timer; an answer exactly at the deadline accepts either outcome",
                       "reconnects succeed immediately (connection faults are C07's subject)"]
    # (mode, (interval, timeout), heartbeats, side events allowed, max deviations)
    if tier == "quick":
        plans = [("api", (300.0, 330.0), 2, 0, 0), ("api", (300.0, 330.0), 1, {"noise": 1}, 0), ("bare", (10.0, 15.0), 2, 0, 0), ("bare", (10.0, 10.5), 1, {"eof": 1, "unsolicited": 1}, 0), ("bare", (10.0, 15.0), 1, {"outage": 1}, 0),
                 ("bare", (10.0, 10.5), 2, 0, 0), ("api-late", (300.0, 330.0), 1, 0, 0), ("api-second-life", (300.0, 330.0), 2, 0, 0)]
        cap = 40
    else:
        plans = [("api", (300.0, 330.0), 3, 1, 0), ("api", (300.0, 330.0), 2, 1, 1), ("bare", (10.0, 15.0), 4, 0, 0),
                 ("bare", (10.0, 15.0), 3, 1, 0), ("bare", (10.0, 10.5), 3, 1, 0), ("bare", (300.0, 330.0), 3, 0, 0),
                 ("bare", (10.0, 15.0), 2, {"outage": 1, "eof": 1}, 0), ("api", (300.0, 330.0), 1, {"outage": 1}, 0), ("api-late", (300.0, 330.0), 2, 1, 0), ("api-second-life", (300.0, 330.0), 2, 1, 0)]
        cap = 150
    for gen in (4, 5):
        for mode, cfg, beats, side, dev in plans:
            params = {"gen": gen, "mode": mode, "config": list(cfg), "beats": beats, "side": side}
            res = explorer.explore(SPEC, params, 40, dev, time_cap=cap, seed=seed, label=f"at{gen}/{mode}/{cfg}")
            chk.add_explorer(f"at{gen}/{mode}/{cfg[0]:g}-{cfg[1]:g}/{beats}beats", SPEC, params, res,
                             {"heartbeats": beats, "deviations": dev, "config": list(cfg), "side_events_each": side,
                              "answer_instants": "now, req+30-eps, req+30, req+30+eps, req+interval-eps, deadline-eps, deadline, never"})
    lingering_close_cases(chk)
    chk.add_audit(SPEC, {"gen": 4, "mode": "bare", "config": [10.0, 15.0], "beats": 1, "side": 1}, 40, 0, limit=4000 if tier == "thorough" else 500)
    return chk.finish()
