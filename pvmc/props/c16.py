"""C16 - pending-message buffer is bounded and overflow is explicit (DESIGN §6 C16)."""
from __future__ import annotations

import asyncio

from .. import explorer, runner
from ..vloop import EPS
from ..ref import framing
from . import sockcommon as sc

SPEC = "pvmc.props.c16:Scenario"
CAPACITY = 10


def model(w):
    """Reference list with expiries, replayed over the recorded calls.  Returns (held, error)."""
    held = []
    for c in w.calls:
        t = c["t"]
        held = [h for h in held if t < h["t"] + h["life"]]       # expired ones are discarded first
        if c["status"] == "pending":
            return held, None
        expect_overflow = len(held) >= CAPACITY
        if expect_overflow != (c["status"] == "overflow"):
            return held, {"clause": "overflow-iff-ten-unexpired", "signature": "overflow-mismatch",
                          "message": f"call #{c['idx']} at t={t}: {len(held)} unexpired held, "
                                     f"expected {'overflow' if expect_overflow else 'accept'}, got {c['status']}"}
        if c["status"] not in ("overflow", "returned"):
            return held, {"clause": "overflow-is-explicit", "signature": "unexpected-exception",
                          "message": f"call #{c['idx']} ended with {c['status']}"}
        if not expect_overflow:
            held.append(c)
    return held, None


def oracle(w):
    held, err = model(w)
    if err:
        return err
    frames, problems = w.wire()
    if problems:
        return {"clause": "frames-well-formed", "signature": "stream-residue", "message": problems[0]}
    pairs, unmatched = sc.match_frames(w, frames)
    if unmatched:
        return {"clause": "nothing-unsubmitted", "signature": "unsubmitted-frame",
                "message": f"frame {unmatched[0]['fr'].data.hex()} matches no call"}
    opened = [t.opened_at for t in w.net.conns]
    if not opened:
        if pairs:
            return {"clause": "nothing-before-connect", "signature": "write-without-connection", "message": "frames without connection"}
        return None
    T = opened[0]
    for f, c in pairs:
        if not f["t"] < c["t"] + c["life"]:
            return {"clause": "expired-never-transmitted", "signature": "expired-transmitted",
                    "message": f"call #{c['idx']} (expiry {c['t'] + c['life']}) transmitted at {f['t']}"}
    if any(c["status"] == "pending" for c in w.calls) or w.loop.has_ready() or any(t.paused for t in w.net.live()):
        # safety only while things are still moving / stalled
        return None
    # calls made before the connection opened and still unexpired at T must appear, in order, once
    expect = [c["idx"] for c in held if c["t"] <= T and T < c["t"] + c["life"]]
    if w.resumed_at is not None and expect:
        # the stream opened stalled: the first held message went into the send buffer at T, the writer
        # waited until the stall ended at R, and the others are judged against the clock at R
        R = w.resumed_at
        by_idx = {c["idx"]: c for c in w.calls}
        expect = expect[:1] + [i for i in expect[1:] if R < by_idx[i]["t"] + by_idx[i]["life"]]
    # (held was computed at the time of the last call; entries expiring between the last call and T drop out)
    got = [c["idx"] for f, c in pairs if c["t"] <= T]
    if got != expect:
        return {"clause": "held-ones-transmitted-in-order", "signature": "held-set-mismatch",
                "message": f"after connecting at t={T}: transmitted calls {got}, reference model holds {expect} "
                           f"(statuses {[c['status'] for c in w.calls]})"}
    return None


class Scenario(sc.SockWorld):
    def __init__(self, params):
        super().__init__(params)
        self.max_send = params.get("max_send", 12)
        if params.get("refuse_first"):
            # the first attempt is refused: for the next two seconds the link is down with NO attempt in flight (then
            # the retry is pending like the first one was)
            self.loop.settle()
            self.net.resolve(False)
            self.loop.settle()
        self.nadv = 0
        self.accepted_conn = False
        self.stalled = False
        self.nrefuse = 0
        self.resumed_at = None

    def kind(self, a):
        return a[0] if a[0] in ("run", "tick") else "env"

    def corners(self):
        now = self.loop.time()
        exp = sorted({c["t"] + c["life"] for c in self.calls if c["status"] == "returned" and c["t"] + c["life"] > now - EPS})
        out = []
        for e in exp[:2]:
            for t in (e - EPS, e, e + EPS):
                if t > now and t not in out:
                    out.append(t)
        if exp and exp[0] - EPS > now + 0.5:
            out.insert(0, now + 0.5)
        return out[:4]

    def enabled(self):
        acts = []
        if self.loop.has_ready():
            return [("run",)]
        if self.stalled:
            # final phase with back-pressure: the clock may pass pending expiries before the stall ends
            acts = [("resume",)]
            if self.nadv < self.p.get("max_adv", 3) + 1:
                acts += [("adv", t) for t in self.corners()]
            return acts
        if self.accepted_conn:
            return []
        if len(self.calls) < self.max_send:
            pat = self.p.get("pattern")
            allowed = pat[len(self.calls)] if pat else "B"
            if allowed in "BC":
                acts.append(("send", "C"))
            if allowed in "BI":
                acts.append(("send", "I"))
        if self.nadv < self.p.get("max_adv", 3):
            for t in self.corners():
                acts.append(("adv", t))
        if self.net.pending:
            acts.append(("accept",))
            if self.p.get("stall"):
                acts.append(("accept-stalled",))
            if self.nrefuse < self.p.get("max_refuse", 0):
                acts.append(("refuse",))         # this attempt fails; the next one is two seconds away
        elif self.nrefuse and self.loop.next_deadline() is not None and not self.accepted_conn:
            acts.append(("tick",))               # ... let the retry timer fire
        return acts

    def do(self, a):
        L = self.loop
        op = a[0]
        if op == "run":
            L.turn()
        elif op == "adv":
            self.nadv += 1
            L.advance_to(a[1])
        elif op == "accept":
            self.accepted_conn = True
            self.net.resolve(True)
        elif op == "refuse":
            self.nrefuse += 1
            self.net.resolve(False)
        elif op == "tick":
            L.advance_to(L.next_deadline())
        elif op == "accept-stalled":
            self.accepted_conn = True
            self.stalled = True
            self.net.pause_next = True
            self.net.resolve(True)
        elif op == "resume":
            self.stalled = False
            self.resumed_at = L.time()
            self.net.live()[-1].resume()
        elif op == "send":
            self.submit(self.fam(len(self.calls)), a[1])
        else:
            raise explorer.HarnessError(f"unknown action {a!r}")

    def step_check(self):
        return oracle(self)

    def finish(self):
        return None

    def fp_extra(self):
        return super().fp_extra() + (self.nadv, self.accepted_conn, self.stalled, self.net.pause_next, self.nrefuse,
                                     None if self.resumed_at is None else round(self.resumed_at - self.loop.time(), 6))


def not_open_cases(chk):
    """send before open_socket and after close: NotOpenError, nothing held, nothing appears later."""
    n = 0
    for gen in (4, 5):
        for when in ("before-open", "after-close", "after-close-reopen"):
            w = Scenario({"gen": gen, "open": False})
            if when != "before-open":
                w.spawn(w.sock.open_socket())
                w.loop.settle()
                w.net.resolve(True)
                w.loop.settle()
                w.spawn(w.sock.close())
                w.loop.run_until(w.loop.time() + 5)
            rec = w.submit(w.fam(0), "I")
            w.loop.settle()
            n += 1
            msg = None
            if rec["status"] != "notopen":
                msg = f"send {when} ended with {rec['status']} instead of NotOpenError"
            w.net.auto = "accept"
            w.spawn(w.sock.open_socket())
            w.loop.run_until(w.loop.time() + 40)
            frames, _ = w.wire()
            pairs, _u = sc.match_frames(w, frames)
            if any(c is rec for f, c in pairs):
                msg = f"message refused {when} was transmitted after a later open_socket()"
            chk.counters["executions"] += 1
            if msg:
                chk.violation(f"at{gen}:not-open:{when}", msg,
                              {"kind": "input", "module": "pvmc.props.c16", "gen": gen, "when": when})
        # send at every turn boundary while close() is in progress (connected, or waiting for a connection):
        # whatever close() has not let through by the time it returns must not be held for a later open
        for state in ("connected", "connecting"):
            k = 0
            while True:
                w = Scenario({"gen": gen, "open": False})
                w.spawn(w.sock.open_socket())
                w.loop.settle()
                if state == "connected":
                    w.net.resolve(True)
                    w.loop.settle()
                w.spawn(w.sock.close())
                turns = 0
                while turns < k and w.loop.has_ready():
                    w.loop.turn()
                    turns += 1
                if turns < k:
                    break
                rec = w.submit(w.fam(0), "I")
                w.loop.run_until(w.loop.time() + 5)
                n_before = len(w.net.conns)
                w.net.auto = "accept"
                w.net.resolve_all(False)
                w.spawn(w.sock.open_socket())
                w.loop.run_until(w.loop.time() + 40)
                frames, _ = w.wire()
                pairs, _u = sc.match_frames(w, frames)
                late = [f for f, c in pairs if c is rec and f["cid"] >= n_before]
                n += 1
                chk.counters["executions"] += 1
                msg = None
                if late:
                    msg = (f"send() {k} loop iterations into close() ({state}) ended with {rec['status']}; the message was held "
                           f"and transmitted on connection {late[0]['cid']} after a later open_socket()")
                elif rec["status"] not in ("notopen", "returned"):
                    msg = f"send() {k} loop iterations into close() ({state}) ended with {rec['status']}"
                if msg:
                    chk.violation(f"at{gen}:not-open:during-close", msg,
                                  {"kind": "input", "module": "pvmc.props.c16", "gen": gen, "when": f"during-close-{state}-{k}"})
                k += 1
        # the application re-opens the socket and sends while an earlier close() is still winding down (another task of
        # the application): what send() accepted then belongs to the new life of the socket and is transmitted
        for state in ("connected", "connecting"):
            k = 1
            while True:
                w = Scenario({"gen": gen, "open": False})

                async def slow_conn(*, connected):
                    # a connection subscriber that takes a few loop iterations (the API layer's does): close() is
                    # suspended in its disconnected notification for that long
                    for _ in range(4):
                        await asyncio.sleep(0)
                slow_conn.__qualname__ = "c16.slow_conn"
                w.sock.subscribe_on_connection_changed(slow_conn)
                w.spawn(w.sock.open_socket())
                w.loop.settle()
                if state == "connected":
                    w.net.resolve(True)
                    w.loop.settle()
                w.spawn(w.sock.close())
                turns = 0
                while turns < k and w.loop.has_ready():
                    w.loop.turn()
                    turns += 1
                if turns < k:
                    break
                if w.sock.is_open:
                    k += 1
                    continue            # close() has not started yet
                w.spawn(w.sock.open_socket())
                recs = [w.submit(w.fam(i), "I") for i in range(2)]
                w.loop.turn() if w.loop.has_ready() else None
                w.net.auto = "accept"
                w.net.resolve_all(False)
                w.loop.run_until(w.loop.time() + 10.0)
                frames, _p = w.wire()
                pairs, _u = sc.match_frames(w, frames)
                got = {c["idx"] for f, c in pairs}
                n += 1
                chk.counters["executions"] += 1
                lost = [r["idx"] for r in recs if r["status"] == "returned" and r["idx"] not in got]
                if lost and w.sock.is_open:
                    chk.violation(f"at{gen}:reopen-during-close", f"at{gen}: open_socket() and two sends {k} loop iterations into a close() ({state}): "
                                  f"send() accepted messages {lost} (statuses {[r['status'] for r in recs]}) but they were never transmitted "
                                  f"although the socket is open and connected={w.sock.is_connected}",
                                  {"kind": "input", "module": "pvmc.props.c16", "gen": gen, "when": f"reopen-during-close-{state}-{k}"})
                k += 1
    return n


def stalled_fault_cases(chk):
    """k messages held, the link comes up stalled (the first write parks in drain()), m more sends arrive during the
    stall (each accepted one pops and writes the next held message and parks too), then the stalled link dies.  Every
    message whose send() returned normally is still owed: on a network that behaves from then on all of them arrive,
    each once - a retry put back at the head must not push a held message out."""
    n = 0
    for gen in (4, 5):
        for k in (8, 9, 10):
            for m in (0, 1, 2, 3):
                for fault in ("reset", "eof"):
                    w = Scenario({"gen": gen, "open": True})
                    w.loop.settle()
                    for i in range(k):
                        w.submit(w.fam(i), "I")
                    w.loop.settle()
                    w.net.pause_next = True
                    w.net.resolve(True)
                    w.loop.settle()
                    for i in range(m):
                        w.submit(w.fam(k + i), "I")
                        w.loop.settle()
                    t = w.net.live()[-1]
                    if fault == "reset":
                        t.peer_reset()
                    else:
                        t.peer_eof()           # the peer has closed its side; the stall ends (its window reopens) afterwards
                        w.loop.settle()
                        t.resume()
                    w.net.auto = "accept"
                    w.loop.run_until(w.loop.time() + 10.0)
                    n += 1
                    chk.counters["executions"] += 1
                    statuses = [c["status"] for c in w.calls]
                    owed = [c["idx"] for c in w.calls if c["status"] == "returned"]
                    frames, _p = w.wire()
                    pairs, _u = sc.match_frames(w, frames)
                    last = max((f["cid"] for f, c in pairs), default=-1)
                    got = [c["idx"] for f, c in pairs if f["cid"] == last]
                    msg = None
                    if any(s not in ("returned", "overflow") for s in statuses):
                        msg = f"call statuses {statuses}"
                    elif fault == "reset" and sorted(got) != owed:      # (their order after two parked writers failed is not C16's business)
                        msg = (f"accepted calls {owed}; after the stalled link was reset the next connection carried {got}")
                    elif fault == "eof" and [i for i in owed if i not in {c['idx'] for f, c in pairs}]:
                        msg = f"accepted calls {owed}; never transmitted: {[i for i in owed if i not in {c['idx'] for f, c in pairs}]}"
                    if msg:
                        chk.violation(f"at{gen}:stalled-link-fault", f"at{gen}: {k} held, link up but stalled, {m} more sends, then {fault}: {msg}",
                                      {"kind": "input", "module": "pvmc.props.c16", "gen": gen, "when": f"stalled-{k}-{m}-{fault}"})
    return n


def requeue_window_cases(chk):
    """A message with retries left meets a write error; while the client tears the dead connection down, a connection
    subscriber (told connected=False) submits ten more messages.  The failed message is held for its retry, so the
    tenth of them is the eleventh: it is refused, and ten messages go out on the next connection - whether the failure
    shows at the first, second or third chunk of the frame, and with 0..2 messages already held behind it."""
    n = 0
    for gen in (4, 5):
        for chunk in (0, 1, 2):
            for behind in (0, 1, 2):
                w = Scenario({"gen": gen, "open": True})
                w.loop.settle()
                w.net.resolve(True)
                w.loop.settle()
                burst = []

                async def on_conn(*, connected, w=w, burst=burst):
                    if not connected and not burst:
                        for i in range(10):
                            burst.append(w.submit(w.fam(100 + i), "I"))
                on_conn.__qualname__ = "c16.on_conn"
                w.sock.subscribe_on_connection_changed(on_conn)
                t = w.net.live()[-1]
                if behind:
                    # variant: the stream is stalled, the first writer parks in drain(), further messages queue up
                    # behind it, then the peer resets the connection (the read loop usually notices first)
                    t.pause()
                    w.loop.settle()
                    first = w.submit(w.fam(0), "I")
                    w.loop.settle()
                    held = [w.submit(w.fam(1 + i), "I") for i in range(behind)]
                    w.loop.settle()
                    t.peer_reset()
                else:
                    # a half-open link: the write itself fails (at the given chunk of the frame), so the writer
                    # is the one that learns of the failure first
                    t.fail_after = chunk
                    first = w.submit(w.fam(0), "I")
                w.loop.settle()
                w.net.auto = "accept"
                w.net.resolve_all(True)
                w.loop.run_until(w.loop.time() + 10.0)
                n += 1
                chk.counters["executions"] += 1
                statuses = [c["status"] for c in w.calls]
                accepted = [c for c in w.calls if c["status"] == "returned"]
                frames, _p = w.wire()
                pairs, _u = sc.match_frames(w, frames)
                last = max((f["cid"] for f, c in pairs), default=-1)
                on_last = {c["idx"] for f, c in pairs if f["cid"] == last}
                label = f"at{gen}: write error with {behind} message(s) queued behind, fault armed at chunk {chunk}, ten sends from the disconnected notification"
                msg = None
                if len(on_last) > CAPACITY:
                    msg = f"{len(on_last)} messages were held for the down link and transmitted on the next connection (statuses {statuses})"
                elif len(accepted) - (0 if first["idx"] in on_last or True else 0) > CAPACITY + 0 and False:
                    pass
                if not msg and len(w.calls) == 1 + behind + 10:
                    expect_overflow = max(0, 1 + behind + 10 - CAPACITY)
                    got_overflow = sum(1 for s_ in statuses if s_ == "overflow")
                    if got_overflow != expect_overflow:
                        msg = f"{got_overflow} sends refused with the overflow error, the reference model refuses {expect_overflow} (statuses {statuses})"
                if msg:
                    chk.violation(f"at{gen}:requeue-window", f"{label}: {msg}",
                                  {"kind": "input", "module": "pvmc.props.c16", "gen": gen, "when": f"requeue-{chunk}-{behind}"})
    return n


def two_clients_cases(chk):
    """Two clients in one process (two consoles, or an old object next to a new one): the bound, the overflow error and
    what is transmitted are per client.  A holds a messages for its down link, B holds b; B's link comes up."""
    n = 0
    for gen in (4, 5):
        for a_held, b_held in ((6, 5), (10, 3), (0, 10), (9, 9)):
            w = Scenario({"gen": gen, "open": True})
            S = w.S
            sock_b = S.AirTouchSocket(w.loop, "console-b", 9100 + gen, w.reg)
            w.roots.append(sock_b)
            w.spawn(sock_b.open_socket())
            w.loop.settle()
            status_b = []

            async def send_b(i, w=w, sock_b=sock_b, status_b=status_b):
                try:
                    await sock_b.send(w.fam(200 + i)[1], w.policy("I"))
                    status_b.append("returned")
                except S.QueueOverflowError:
                    status_b.append("overflow")
                except Exception as e:  # noqa: BLE001
                    status_b.append("raised:" + type(e).__name__)
            for i in range(a_held):
                w.submit(w.fam(i), "I")
            w.loop.settle()
            for i in range(b_held):
                w.spawn(send_b(i))
                w.loop.settle()
            # B's attempt is the second pending one
            w.net.resolve(True, index=1)
            w.loop.settle()
            n += 1
            chk.counters["executions"] += 1
            label = f"at{gen}: client A holds {a_held} for its down link, client B {b_held}; B's link comes up"
            msg = None
            st_a = [c["status"] for c in w.calls]
            if any(x != "returned" for x in st_a) or any(x != "returned" for x in status_b):
                msg = f"send() results: A {st_a}, B {status_b} (nobody holds more than ten)"
            else:
                tb = w.net.conns[-1]
                frs, residue, err = framing.split(gen, bytes(tb.written))
                want = [w.fam(200 + i)[4] for i in range(b_held)]
                got = [f.data for f in frs]
                if err or residue or got != want:
                    msg = (f"B's console received {len(got)} frames {[g.hex() for g in got][:12]}; B submitted {len(want)} "
                           f"({[x.hex() for x in want][:12]})")
            if msg:
                chk.violation(f"at{gen}:two-clients", f"{label}: {msg}",
                              {"kind": "input", "module": "pvmc.props.c16", "gen": gen, "when": f"two-clients-{a_held}-{b_held}"})
    return n


def replay_input(rp):
    c = runner.Check("C16", "quick", 0, "model_checking")
    not_open_cases(c)
    stalled_fault_cases(c)
    requeue_window_cases(c)
    two_clients_cases(c)
    for s, r in c.violations.items():
        return r["message"]
    return None


def run(tier, seed, part=None):
    chk = runner.Check("C16", tier, seed, "model_checking")
    chk.trusted_base = ["CPython 3.12 asyncio unmodified", "pvmc.vloop.VLoop", "pvmc.simnet", "pvmc.ref.framing"]
    chk.assumptions = ["the connection stays down (first connect attempt unanswered) until the final accept",
                       "stall plans: the connection opens with back-pressure on (writer.drain() suspends) and is released once, after up to two further clock corners",
                       "lifetimes from {1 s, 30 s}; clock advanced only to timed-automaton corners of pending expiries (e-eps, e, e+eps) and +0.5 s"]
    # 'pattern': per send index, which lifetimes may be chosen (B = both 1 s and 30 s, I = 30 s, C = 1 s)
    if tier == "quick":
        plans = [({"max_send": 12, "max_adv": 1, "pattern": "BBIIIIIIBBBI"}, 13, 0),
                 ({"max_send": 5, "max_adv": 2, "pattern": "BBBBB"}, 8, 0),
                 ({"max_send": 4, "max_adv": 1, "pattern": "BBBB", "stall": True}, 8, 0),
                 ({"max_send": 12, "max_adv": 1, "pattern": "IIIIIIIIIBBB", "refuse_first": True}, 14, 0),
                 ({"max_send": 3, "max_adv": 2, "pattern": "BBB", "refuse_first": True}, 6, 0),
                 ({"max_send": 11, "max_adv": 1, "pattern": "IIIIIIIIIIB", "max_refuse": 1}, 15, 0),
                 ({"max_send": 3, "max_adv": 2, "pattern": "BBB", "max_refuse": 1}, 8, 0)]
        cap = 45
    else:
        plans = [({"max_send": 12, "max_adv": 1, "pattern": "B" * 12}, 14, 0),
                 ({"max_send": 12, "max_adv": 3, "pattern": "BBIIIIIIBBBI"}, 16, 0),
                 ({"max_send": 7, "max_adv": 4, "pattern": "B" * 7}, 12, 0),
                 ({"max_send": 6, "max_adv": 2, "pattern": "B" * 6, "stall": True}, 12, 0),
                 ({"max_send": 12, "max_adv": 2, "pattern": "IIIIIIIIBBBB", "refuse_first": True}, 15, 0),
                 ({"max_send": 6, "max_adv": 3, "pattern": "B" * 6, "refuse_first": True}, 10, 0),
                 ({"max_send": 12, "max_adv": 2, "pattern": "IIIIIIIIIIBB", "max_refuse": 1}, 17, 0),
                 ({"max_send": 5, "max_adv": 3, "pattern": "B" * 5, "max_refuse": 2}, 12, 0)]
        cap = 300
    # scripted families first: each is a handful of complete executions in this process, and one of them (two clients
    # side by side) is the very thing that would make the explorer's own executions interfere with each other -
    # state shared between client objects.  If they already fail there is nothing sound left to explore.
    chk.cov["two_clients_cases"] = two_clients_cases(chk)
    chk.cov["not_open_cases"] = not_open_cases(chk)
    chk.cov["stalled_fault_cases"] = stalled_fault_cases(chk)
    chk.cov["requeue_window_cases"] = requeue_window_cases(chk)
    if chk.violations:
        return chk.finish()
    for gen in (4, 5):
        for extra, depth, dev in plans:
            params = dict(gen=gen, **extra)
            res = explorer.explore(SPEC, params, depth, dev, time_cap=cap, seed=seed, do_finish=False,
                                   label=f"at{gen}/{extra}/d{depth}")
            chk.add_explorer(f"at{gen}/{extra['max_send']}sends/{extra['max_adv']}adv" + ("/stall" if extra.get("stall") else "") + ("/refused-first" if extra.get("refuse_first") else "") + ("/refusals" if extra.get("max_refuse") else ""), SPEC, params, res, {"depth": depth, "deviations": dev, **extra})
    chk.add_audit(SPEC, {"gen": 4, "max_send": 5, "max_adv": 2, "pattern": "BBBBB"}, 6, 0, limit=4000 if tier == "thorough" else 600)
    return chk.finish()
