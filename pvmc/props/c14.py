"""C14 - state is refreshed after every reconnection and after AT4 group silence (DESIGN §6 C14)."""
from __future__ import annotations

from .. import apiworld, console, explorer, pubmodel, runner, worlds
from ..vloop import EPS

SPEC = "pvmc.props.c14:Scenario"


def c_silent(w):
    return w.console.silent
POLL = 300.0


class Scenario(apiworld.ApiWorld):
    def __init__(self, params):
        gen = params["gen"]
        super().__init__(gen, console.default_installation(gen, 2, (2, 1)), auto=True, net_auto="accept")
        self.p = params
        r = self.init_now(0.0)
        assert r and r[1] is True, r
        self.loop.settle()
        self.t_init = self.loop.time()
        self.net.auto = None                 # from now on the environment resolves connects
        self.used = {"loss": 0, "edit": 0, "refuse": 0, "adv": 0, "gs": 0, "mute": 0, "cmd": 0, "tick": 0, "acs": 0, "silent": 0, "failopen": 0, "burst": 0}
        self.notified = []                   # (time, who, id) subscriber calls after init
        self.gs_sent = []                    # times at which the console sent a group/zone status (AT4 poll model)
        self.mute_gs = False
        self.console.answer_hook = self._hook
        at = self.at
        self._subscribe(at)
        self.edits_pending = False
        self.conn_opened_seen = 1

    def _subscribe(self, at):
        def mk(who):
            async def sub(ident):
                self.notified.append((self.loop.time(), who, ident))
            sub.__qualname__ = f"c14.sub.{who}"
            return sub
        at.subscribe(mk("airtouch"))
        for ac in at.air_conditioners:
            ac.subscribe(mk(f"ac{ac.ac_id}"))
            for z in ac.zones:
                z.subscribe(mk(f"zone{z.zone_id}"))

    def _hook(self, kind, fr, answers):
        if kind == "req-zone-status":
            if self.mute_gs:
                return []
            if not self.console.silent:          # a silent console sends nothing: no group status went out
                self.gs_sent.append(self.loop.time())
        return answers

    # ---- explorer interface ----------------------------------------------------------------------
    def kind(self, a):
        return a[0] if a[0] in ("run", "tick") else "env"

    def enabled(self):
        p = self.p
        ready = self.loop.has_ready()
        if ready:
            acts = [("run",)]
            if p.get("midpush") and self.net.live() and self.used["acs"] < 1 and len(self.net.conns) > 1:
                # the one environment event that may land in the middle of the client's reaction to a re-connection:
                # the console volunteers a (changed) AC status while the refresh is still in flight
                acts.append(("ac_status",))
            return acts
        acts = []
        if self.loop.next_deadline() is not None and self.used["tick"] < p.get("max_tick", 4):
            acts.append(("tick",))
        live = self.net.live()
        if live and self.used["loss"] < p.get("max_loss", 2):
            acts += [("eof",), ("reset",)]
            if p.get("linkerr"):
                acts.append(("linkerr",))       # the link dies with ETIMEDOUT (an OSError that is not a ConnectionError)
        if self.net.pending and p.get("burst_needs_wait") and self.used["burst"] and not self.used["adv"]:
            # (interim) with ten commands buffered the link only comes back after their lifetime has run out
            acts.append(("wait", 31.0))
            return acts
        if self.net.pending:
            acts.append(("accept",))
            if self.used["refuse"] < 1:
                acts.append(("refuse",))
            if self.used["failopen"] < p.get("max_failopen", 0):
                acts.append(("accept_failing",))     # accepted, but the first write (the refresh request) fails
            if self.used["adv"] < p.get("max_adv", 1):
                for d in p.get("outages", (10.0, 31.0, 400.0)):
                    acts.append(("wait", d))
        if self.used["edit"] < p.get("max_edit", 2) and not live:
            for k in range(4):
                acts.append(("edit", k))
        if self.gen == 4 and live and p.get("poll", True):
            if self.used["gs"] < 1:
                acts.append(("gs",))
            if self.used["mute"] < 1:
                acts.append(("mute_gs",))
            if self.used["acs"] < 1:
                acts.append(("ac_status",))       # a non-group frame must not re-arm the poll timer
            if self.used["adv"] < p.get("max_adv", 1):
                acts += [("wait", 100.0)]
        if live and self.used["cmd"] < p.get("max_cmd", 0):
            acts.append(("cmd",))
        if not live and self.used["burst"] < p.get("max_burst", 0) and self.used["adv"] == 0:
            acts.append(("cmd10",))          # the application issues ten commands while the link is down
        if live and self.used["silent"] < p.get("max_silent", 0):
            acts.append(("silent",))          # the console stops answering anything (a refresh stays unanswered)
        return acts

    def do(self, a):
        L = self.loop
        op = a[0]
        c = self.console
        if op == "run":
            if self.p.get("macro"):
                L.settle()       # no deviations in this plan: intermediate turn boundaries cannot branch
            else:
                L.turn()
        elif op == "tick":
            self.used["tick"] += 1
            L.advance_to(L.next_deadline())
            if self.p.get("macro"):
                L.settle()
            else:
                L.turn()
        elif op in ("eof", "reset", "linkerr"):
            self.used["loss"] += 1
            t = self.net.live()[-1]
            if op == "linkerr":
                t.peer_reset(TimeoutError(110, "sim: connection timed out"))
            else:
                (t.peer_eof if op == "eof" else t.peer_reset)()
        elif op == "accept":
            self.net.resolve(True)
        elif op == "refuse":
            self.used["refuse"] += 1
            self.net.resolve(False)
        elif op == "accept_failing":
            self.used["failopen"] += 1
            orig = self.net.on_open

            def arm(t, orig=orig):
                orig(t)
                t.fail_after = 0
                self.net.on_open = orig
            self.net.on_open = arm
            self.net.resolve(True)
        elif op == "wait":
            self.used["adv"] += 1
            target = L.time() + a[1]
            # never skip a loop timer: stop at each and let it run
            while True:
                nd = L.next_deadline()
                if nd is None or nd > target:
                    break
                L.advance_to(nd)
                L.settle()
            L.advance_to(target)
        elif op == "edit":
            self.used["edit"] += 1
            k = a[1]
            if k == 0:
                c.state["ac"][0].update({"mode": "heat", "setpoint": 19 if self.gen == 4 else 19.5})
            elif k == 1:
                c.state["zone"][0].update({"percent": 45, "power": "off"})
            elif k == 2:
                c.state["zone"][2].update({"method": "percent", "spill": True})
            else:
                c.state["ac"][1].update({"power": "off", "fan": "high"})
        elif op == "gs":
            self.used["gs"] += 1
            c.send_raw(c.zone_status_frame())
            self.gs_sent.append(L.time())
        elif op == "ac_status":
            self.used["acs"] += 1
            c.state["ac"][0]["fan"] = "high" if c.state["ac"][0]["fan"] != "high" else "low"
            c.send_raw(c.ac_status_frame())
            c.send_raw(c.timer_status_frame())
        elif op == "mute_gs":
            self.used["mute"] += 1
            self.mute_gs = True
        elif op == "silent":
            self.used["silent"] += 1
            c.silent = True
        elif op == "cmd10":
            self.used["burst"] += 1
            import pyairtouch as A
            ac = sorted(self.at.air_conditioners, key=lambda a: a.ac_id)[0]
            for i in range(10):
                self.call(lambda i=i: ac.set_power(A.AcPowerControl.TURN_ON if i % 2 else A.AcPowerControl.TURN_OFF), f"burst{i}")
        elif op == "cmd":
            self.used["cmd"] += 1
            self.call(self.at.check_for_updates, "check_for_updates")
        else:
            raise explorer.HarnessError(f"unknown action {a!r}")

    # ---- oracle -------------------------------------------------------------------------------------
    def _v(self, clause, msg):
        return {"clause": clause, "signature": clause, "message": msg}

    def step_check(self):
        if self.loop.has_ready():
            return None
        now = self.loop.time()
        reqs = self.console.requests
        # (a) every post-init connection: AC status + zone status requested at the time of the open
        refresh_times = set()
        for t in self.net.conns[1:]:
            kinds = [(r[0], r[2]) for r in reqs if r[1] == t.cid]
            refresh_times.add(t.opened_at)
            if t.lost or t._closing:
                continue            # the link may have died before the client could use it
            for want in ("req-ac-status", "req-zone-status"):
                hits = [tm for tm, k in kinds if k == want]
                if not hits or hits[0] != t.opened_at:
                    return self._v("refresh-on-reconnect", f"connection {t.cid} opened at t={t.opened_at}: {want} "
                                                           f"{'missing' if not hits else 'late at ' + str(hits[0])}")
        # (b) the model converges to what the console reports (judged when connected and quiescent)
        live = self.net.live()
        if live and not self.mute_gs and not c_silent(self) and not live[-1].eof_from_peer and live[-1].fail_after is None:
            d = pubmodel.diff(pubmodel.expected_view(self.gen, self.inst, self.console.state), pubmodel.observed_view(self.at))
            if d:
                return self._v("model-converges", f"connected and quiescent at t={now} but {d[0]}")
        # (c) notifications only for entities whose public view differs from before the outage - checked in finish()
        # (d) AT4: group status requested exactly when none has been received for 300 s
        if self.gen == 4:
            v = self.poll_check(now, refresh_times)
            if v:
                return v
        else:
            extra = [r for r in reqs if r[2] == "req-zone-status" and r[0] > self.t_init and r[0] not in refresh_times]
            if extra:
                return self._v("no-poll-on-at5", f"AirTouch 5 client sent a zone status request at t={extra[0][0]} outside a reconnect")
        return None

    def poll_check(self, now, refresh_times):
        """Reference model of the AT4 work-around timer."""
        got = sorted(r[0] for r in self.console.requests if r[2] == "req-zone-status" and r[0] > self.t_init
                     and r[0] not in refresh_times)
        gs = sorted(t for t in self.gs_sent if t >= self.t_init)
        last = self.t_init
        expected = []
        while True:
            d = last + POLL
            nxt = [t for t in gs if last < t <= d]
            if nxt:
                if nxt[0] == d:
                    return None         # tie: either
                last = nxt[0]
                continue
            if d > now:
                break
            expected.append(d)
            last = d
        for d in expected:
            up = any(t.opened_at < d and not any(e[1] in ("close", "abort") and e[2] == t.cid and e[0] < d for e in self.net.log)
                     and not (t.eof_from_peer) for t in self.net.conns)
            near_loss = any(e[1] in ("close", "abort") and abs(e[0] - d) < 2 * EPS for e in self.net.log)
            if up and not near_loss and d not in got:
                return self._v("at4-group-status-poll", f"no group status for {POLL}s up to t={d} (group statuses sent at {gs}), "
                                                        f"connected, but no group status request at t={d} (requests at {got})")
        for t in got:
            if t not in expected:
                return self._v("at4-group-status-poll-not-early", f"group status request at t={t} although the model expects "
                                                                  f"polls only at {expected} (group statuses sent at {gs})")
        return None

    def finish(self):
        """Network behaves: accept, answer; the model must converge and unchanged data must not notify."""
        L = self.loop
        v = self.step_check()
        if v:
            return v
        n0 = len(self.notified)
        before = pubmodel.observed_view(self.at)
        self.net.auto = "accept"
        if self.gen == 4 and self.mute_gs and not self.console.silent:
            # the console keeps ignoring group status requests for another 700 s on a network that behaves:
            # the work-around must keep asking, every 300 s of silence, whatever happened before
            for t in self.net.conns:
                t.fail_after = None
            self.net.resolve_all(True)
            L.run_until(L.time() + 700.0)
            v = self.step_check()
            if v:
                return v
            # the console answers again: the next 300 s poll brings the zones up to date
            self.mute_gs = False
            L.run_until(L.time() + 301.0)
        self.mute_gs = False
        if self.console.silent:
            # a half-open link: nothing tells the client except its own heartbeat.  Within 700 s it must have
            # dropped the silent connection and hold a new one (the network accepts)
            for t in self.net.conns:
                t.fail_after = None
            self.net.resolve_all(True)
            silent_cids = {t.cid for t in self.net.live()}
            L.run_until(L.time() + 700.0)
            live = self.net.live()
            if not live or (silent_cids and {t.cid for t in live} <= silent_cids):
                return self._v("silent-link-replaced", f"the console has been silent for 700 s; connections held now: "
                                                       f"{[t.cid for t in live]} (silent ones: {sorted(silent_cids)}), "
                                                       f"pending connects: {len(self.net.pending)}")
            # the console answers again: one more loss makes the client ask afresh
            self.console.silent = False
            if self.net.live():
                self.net.live()[-1].peer_eof()
        for t in self.net.conns:
            t.fail_after = None
        self.net.resolve_all(True)
        L.run_until(L.time() + 3.0)
        if not self.net.live():
            return self._v("reconnects", "no connection 3 s after the network behaves again")
        # force one more refresh cycle with unchanged data: it must not notify anybody
        v = self.step_check()
        if v:
            return v
        after = pubmodel.observed_view(self.at)
        # subscribers notified during convergence: only entities that changed may have been notified
        changed = set()
        for a in after["acs"]:
            if after["acs"][a] != before["acs"].get(a):
                changed.add(f"ac{a}")
            for z in after["acs"][a]["zones"]:
                if after["zones"][z] != before["zones"].get(z):
                    changed.add(f"zone{z}")
                    changed.add(f"ac{a}")
        n1 = len(self.notified)
        t = self.net.live()[-1]
        t.peer_eof()
        L.run_until(L.time() + 3.0)
        if len(self.net.live()) != 1:
            return self._v("reconnects", "no single connection after an EOF on a behaving network")
        extra = self.notified[n1:]
        if extra:
            return self._v("unchanged-refresh-is-silent", f"a refresh that returned unchanged data notified {extra[:3]}")
        v = self.step_check()
        if v:
            return v
        # steady state after whatever happened: for the next 1000 s the client must behave like a healthy one -
        # version requests every 300 s, (AT4) a group status request 300 s after each group status, nothing else,
        # the connection stays up and the model stays equal to the console
        # (a heartbeat request may have gone unanswered during the script: the console volunteers its version
        # once, which counts as a response, so that no reset is owed any more)
        self.console.send_raw(self.console.version_frame())
        L.settle()
        t0 = L.time()
        n0 = len(self.console.requests)
        c0 = len(self.net.conns)
        L.run_until(t0 + 1000.0)
        later = [(round(r[0] - t0, 6), r[2]) for r in self.console.requests[n0:]]
        vers = [t for t, k in later if k == "req-version"]
        if len(vers) < 3 or any(abs((b - a) - 300.0) > 1e-6 for a, b in zip(vers, vers[1:])):
            return self._v("steady-state-heartbeat", f"version requests during 1000 s of healthy idle time at {vers} (expected every 300 s)")
        polls = [t for t, k in later if k == "req-zone-status"]
        if self.gen == 4:
            if len(polls) < 3 or any(abs((b - a) - 300.0) > 1e-6 for a, b in zip(polls, polls[1:])):
                return self._v("steady-state-poll", f"group status requests during 1000 s of healthy idle time at {polls} (expected every 300 s)")
        elif polls:
            return self._v("no-poll-on-at5", f"AirTouch 5 client polled zone status at {polls}")
        other = [(t, k) for t, k in later if k not in ("req-version", "req-zone-status")]
        if other:
            return self._v("steady-state-quiet", f"unexpected requests during healthy idle time: {other[:3]}")
        if len(self.net.conns) != c0:
            return self._v("steady-state-connection", "the connection was reset during healthy idle time")
        return self.step_check()

    def fp_extra(self):
        now = self.loop.time()
        return (worlds.net_state(self.net), tuple(sorted(self.used.items())), self.mute_gs, round(now - self.t_init, 6), self.console.silent,
                repr(sorted((k, sorted(v.items())) for k, v in self.console.state["ac"].items())),
                repr(sorted((k, sorted(v.items())) for k, v in self.console.state["zone"].items())),
                tuple(round(t - now, 6) for t in self.gs_sent[-2:]), len(self.notified))

    def outcome(self):
        return repr(([(round(r[0], 3), r[2]) for r in self.console.requests if r[0] > self.t_init][-8:], len(self.net.conns)))


def deadline_in_outage_jobs():
    return [(gen, down, cmd_before, up_after, n)
            for gen in (4, 5) for down in (100.0, 270.0, 295.0) for cmd_before in (29.0, 10.0, 1.0)
            for up_after in (1.0, 10.0, 40.0) for n in (0, 1, 9, 10) if POLL - cmd_before >= down]


def run_deadline_in_outage(job):
    """The 300 s deadline of the silence poll falls INSIDE an outage, with n commands (up to a full retry queue) buffered
    shortly before it.  Nothing can be asked then; the link returns, the client refreshes, and from there on the console
    ignores group status requests for 700 s: the poll goes on (AT4), every 300 s, and when the console answers again the
    model converges.  Scripted; the grid of (link lost at, commands buffered n seconds before the deadline, link back n
    seconds after it, number of commands) is enumerated."""
    import pyairtouch as A
    gen, down, cmd_before, up_after, n = job
    w = Scenario({"gen": gen, "poll": True, "macro": True})
    label = (f"at{gen}: link lost {down:.0f} s after init, {n} commands buffered {cmd_before:.0f} s before the poll deadline, "
             f"link back {up_after:.0f} s after it")
    t0 = w.t_init

    def upto(t):
        if t > w.loop.time():
            w.do(("wait", t - w.loop.time()))
        w.loop.settle()
    upto(t0 + down)
    w.do(("eof",))
    w.loop.settle()
    upto(t0 + POLL - cmd_before)
    ac = sorted(w.at.air_conditioners, key=lambda a: a.ac_id)[0]
    for i in range(n):
        w.call(lambda i=i: ac.set_power(A.AcPowerControl.TURN_ON if i % 2 else A.AcPowerControl.TURN_OFF), f"burst{i}")
    w.loop.settle()
    upto(t0 + POLL + up_after)
    # from here on the network behaves (the heartbeat that could not be sent at its own 300 s mark costs this first
    # connection its life 30 s later: the next attempt is accepted like any other)
    w.net.auto = "accept"
    w.net.resolve_all(True)
    w.loop.settle()
    upto(w.loop.time() + 3.0)
    if not w.net.live():
        return (f"at{gen}:deadline-in-outage:reconnects", f"{label}: no connection 3 s after the network accepts again")
    v = w.step_check()
    if v:
        return (f"at{gen}:deadline-in-outage:{v['clause']}", f"{label}: {v['message']}")
    w.mute_gs = True
    upto(w.loop.time() + 700.0)
    v = w.step_check()
    if v:
        return (f"at{gen}:deadline-in-outage:{v['clause']}", f"{label}; then 700 s without group status: {v['message']}")
    w.mute_gs = False
    upto(w.loop.time() + 301.0)
    v = w.step_check()
    if v:
        return (f"at{gen}:deadline-in-outage:{v['clause']}", f"{label}; console answers again: {v['message']}")
    rep = w.loop_reports()
    if rep:
        return (f"at{gen}:deadline-in-outage:loop-report", f"{label}: {rep[:1]}")
    return (None, len([r for r in w.console.requests if r[2] == "req-zone-status"]))


def replay_input(rp):
    sig, msg = run_deadline_in_outage(tuple(rp["deadline_in_outage"]))
    return msg if sig else None


def run(tier, seed, part=None):
    chk = runner.Check("C14", tier, seed, "model_checking")
    chk.trusted_base = ["pvmc.console.SimConsole / pvmc.ref", "pvmc.pubmodel", "pvmc.vloop, pvmc.simnet"]
    chk.assumptions = ["outage lengths from {0, one refusal (2 s back-off), 10, 31, 400 s}; AT4 silence via a console that stops "
                       "answering group status requests; environment events at quiescent points (thorough: one mid-reaction event)"]
    if tier == "quick":
        plans = [({"max_tick": 3, "max_loss": 1, "max_edit": 1, "max_adv": 1, "poll": False, "linkerr": True}, 6, 0),
                 ({"max_tick": 4, "max_loss": 0, "max_edit": 0, "max_adv": 1, "poll": True}, 6, 0),
                 ({"max_tick": 1, "max_loss": 2, "max_edit": 1, "max_adv": 0, "poll": False, "max_silent": 1, "max_failopen": 1}, 7, 0),
                 ({"max_tick": 2, "max_loss": 1, "max_edit": 0, "max_adv": 1, "poll": True, "outages": [400.0]}, 6, 0),
                 ({"max_tick": 0, "max_loss": 1, "max_edit": 1, "max_adv": 0, "poll": False, "midpush": True}, 4, 1),
                 ({"max_tick": 1, "max_loss": 1, "max_edit": 1, "max_adv": 1, "poll": False, "max_burst": 1, "outages": [10.0, 31.0]}, 6, 0)]
        cap = 45
    else:
        plans = [({"max_tick": 4, "max_loss": 2, "max_edit": 2, "max_adv": 2, "poll": False, "max_cmd": 1, "linkerr": True}, 8, 0),
                 ({"max_tick": 6, "max_loss": 1, "max_edit": 1, "max_adv": 2, "poll": True}, 8, 0),
                 ({"max_tick": 3, "max_loss": 1, "max_edit": 1, "max_adv": 1, "poll": True, "midpush": True}, 6, 1),
                 ({"max_tick": 1, "max_loss": 2, "max_edit": 1, "max_adv": 0, "poll": False, "midpush": True}, 6, 1),
                 ({"max_tick": 2, "max_loss": 3, "max_edit": 1, "max_adv": 1, "poll": False, "max_silent": 1, "max_failopen": 2}, 9, 0)]
        cap = 300
    for gen in (4, 5):
        for extra, depth, dev in plans:
            if gen == 5 and extra.get("poll") and tier == "quick":
                extra = dict(extra, max_tick=3)
            params = dict(gen=gen, macro=(dev == 0), **extra)
            res = explorer.explore(SPEC, params, depth, dev, time_cap=cap, seed=seed, label=f"at{gen}/{extra}")
            chk.add_explorer(f"at{gen}/" + ("mid-reaction-status" if extra.get("midpush") else "poll" if extra.get("poll") else ("silent-console" if extra.get("max_silent") else "reconnect")), SPEC, params, res,
                             {"depth": depth, "deviations": dev, **extra})
    # the refresh hangs on the socket telling its subscribers about every new connection, whatever happened to the ones
    # before - explored at the socket level with C07's scenario (faults at every turn boundary), judged by one clause:
    # the last notification says connected and belongs to the connection that is live
    for gen in (4, 5):
        depth, dev = (4, 1) if tier == "quick" else (6, 1)
        params = {"gen": gen, "notify_clause": True, "bad_kinds": [], "raising": False}
        res = explorer.explore("pvmc.props.c07:Scenario", params, depth, dev, time_cap=cap, seed=seed, label=f"at{gen}/socket-notifications")
        chk.add_explorer(f"at{gen}/socket-notifications", "pvmc.props.c07:Scenario", params, res, {"depth": depth, "deviations": dev})
    jobs = deadline_in_outage_jobs()
    polls = 0
    for job, (sig, msg) in zip(jobs, explorer.pool().map(run_deadline_in_outage, jobs, chunksize=2)):
        chk.counters["executions"] += 1
        if sig:
            chk.violation(sig, msg, {"kind": "input", "module": "pvmc.props.c14", "deadline_in_outage": list(job), "message": msg})
        else:
            polls += msg
    chk.parts.append({"scenario": "poll deadline inside an outage with a (nearly) full retry queue", "runs": len(jobs), "zone_status_requests_seen": polls})
    chk.add_audit(SPEC, {"gen": 4, "macro": True, "max_tick": 2, "max_loss": 1, "max_edit": 1, "max_adv": 1, "poll": True}, 4, 0, limit=3000 if tier == "thorough" else 400)
    return chk.finish()
