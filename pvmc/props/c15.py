"""C15 - shutdown is final, leak-free and reversible (DESIGN §6 C15)."""
from __future__ import annotations

import asyncio

from .. import apiworld, console, explorer, runner, worlds

SPEC = "pvmc.props.c15:Scenario"
IDLE = 1000.0


def _other_installation(gen):
    # AT4: old ability format with a single AC ("all groups belong to this AC"): any group left over from
    # the first life would show up among its zones
    inst = console.default_installation(gen, 1, (3,), fmt="old")
    inst["acs"][0]["name"] = "OtherAC"
    inst["zones"] = {0: "Alpha", 1: "Beta", 2: "Gamma"}
    return inst


def _first_installation(gen):
    inst = console.default_installation(gen, 2, (2, 1))
    if gen == 4:
        inst["zones"][7] = "Attic"          # a group the second installation does not have
        inst["acs"][1]["zones"].append(7)
    return inst


_FRESH = {}


def fresh_life(gen):
    """(relative time, request kind) of everything a freshly created client sends during 700 s after init."""
    if gen not in _FRESH:
        from .. import vloop
        prev = vloop.events._get_running_loop()
        w = apiworld.ApiWorld(gen, _other_installation(gen), auto=True)
        r = w.init_now(0.0)
        assert r and r[1] is True
        t0 = r[2]
        n0 = len(w.console.requests)
        w.loop.run_until(t0 + 700.0)
        _FRESH[gen] = [(round(x[0] - t0, 6), x[2]) for x in w.console.requests[n0:]]
        if prev is not None:
            vloop.install(prev)
    return _FRESH[gen]


class Scenario(apiworld.ApiWorld):
    """Full API object; the environment resolves connects and releases the console's answers one
    by one, so shutdown() can land between any two handshake steps."""

    def __init__(self, params):
        gen = params["gen"]
        super().__init__(gen, _first_installation(gen), auto=False, net_auto=None)
        self.p = params
        self.conn_events = []
        self.shutdown_state = None      # None | 'called' | 'returned'
        self.shutdown_mark = None       # (time, len(net.log), len(conn_events)) when shutdown() returned
        self.n = {"refuse": 0, "eof": 0, "cmd": 0, "tick": 0}
        self.pos = 0
        sock = self.at._socket

        async def on_conn(*, connected):
            self.conn_events.append((self.loop.time(), connected))
        on_conn.__qualname__ = "c15.on_conn"
        sock.subscribe_on_connection_changed(on_conn)
        self.init_task = self.start_init()

    def kind(self, a):
        return a[0] if a[0] in ("run", "tick") else "env"

    def enabled(self):
        if self.p.get("script") is not None:
            return self.enabled_scripted()
        acts = []
        ready = self.loop.has_ready()
        if ready:
            acts.append(("run",))
        elif self.loop.next_deadline() is not None and self.n["tick"] < self.p.get("max_tick", 4):
            acts.append(("tick",))
        # only shutdown() may land mid-reaction (that is the deviation this property is about);
        # the other environment events are taken at quiescent points
        if self.net.pending and (not ready or self.shutdown_state is not None):
            acts.append(("accept",))
            if self.n["refuse"] < 1 and self.shutdown_state is None:
                acts.append(("refuse",))
        if self.shutdown_state is None:
            if not ready:
                if self.console.outbox and self.net.live():
                    acts.append(("answer",))
                if self.net.live() and self.n["eof"] < 1:
                    acts.append(("eof",))
                if self.n["cmd"] < 1:
                    acts.append(("cmd",))
                if self.net.live() and self.net.live()[-1].fail_after is None and self.p.get("failw"):
                    acts.append(("failw",))
            acts.append(("shutdown",))
        return acts

    def enabled_scripted(self):
        """Backbone mode: the environment follows a fixed script at quiescent points; only
        shutdown() branches (at every turn boundary)."""
        acts = []
        ready = self.loop.has_ready()
        if ready:
            acts.append(("run",))
        script = self.p["script"]
        if self.shutdown_state is None:
            if not ready and self.pos < len(script):
                acts.append(tuple(script[self.pos]))
            acts.append(("shutdown",))
        elif self.net.pending:
            acts.append(("accept",))
        return acts

    def do(self, a):
        L = self.loop
        op = a[0]
        if self.p.get("script") is not None and op not in ("run", "shutdown") and self.shutdown_state is None:
            self.pos += 1
        if op == "run":
            L.turn()
        elif op == "tick":
            self.n["tick"] += 1
            L.advance_to(L.next_deadline())
            L.turn()
        elif op == "accept":
            self.net.resolve(True)
        elif op == "refuse":
            self.n["refuse"] += 1
            self.net.resolve(False)
        elif op == "answer":
            self.console.flush(1)
        elif op == "eof":
            self.n["eof"] += 1
            self.net.live()[-1].peer_eof()
        elif op == "cmd":
            self.n["cmd"] += 1
            self.call(self.at.check_for_updates, "check_for_updates")
        elif op == "failw":
            self.net.live()[-1].fail_after = 0          # the next write on the live connection fails
        elif op == "stall":
            self.net.live()[-1].pause()                 # the console's window closes: writers park in drain()
        elif op == "shutdown":
            self.shutdown_state = "called"

            async def drv():
                await self.at.shutdown()
                self.shutdown_state = "returned"
                self.shutdown_mark = (L.time(), len(self.net.log), len(self.conn_events))
                if self.p.get("prompt_reinit") == "before-settle":
                    # the application does `await at.shutdown(); await at.init()`: nothing runs in between
                    self._switch_console()
                    self.reinit_started = True
                    try:
                        r = await self.at.init()
                        self.init_result.append(("returned", r, L.time()))
                    except Exception as e:  # noqa: BLE001
                        self.init_result.append(("raised", type(e).__name__, L.time()))
            self.sd_task = self.spawn(drv())
        else:
            raise explorer.HarnessError(f"unknown action {a!r}")

    def _after_shutdown(self):
        if self.shutdown_mark is None:
            return None
        t0, i0, c0 = self.shutdown_mark
        for e in self.net.log[i0:]:
            if e[1] in ("attempt", "open"):
                return self._v("no-connection-after-shutdown", f"'{e[1]}' at t={e[0]} after shutdown() returned at t={t0}")
            if e[1] in ("write", "write_fail"):
                return self._v("no-write-after-shutdown", f"bytes written at t={e[0]} after shutdown() returned at t={t0}")
        for (t, connected) in self.conn_events[c0:]:
            if connected:
                return self._v("no-connected-notification-after-shutdown",
                               f"connected=True notification at t={t} after shutdown() returned at t={t0}")
        return None

    def _v(self, clause, msg):
        return {"clause": clause, "signature": clause, "message": msg}

    def step_check(self):
        v = self._after_shutdown()
        if v:
            return v
        for t in self.net.conns:
            if t.closed_by == "gc":
                return self._v("every-connection-closed", f"connection {t.cid} closed only by the garbage collector")
        return None

    def fp_extra(self):
        return (worlds.net_state(self.net), self.shutdown_state, tuple(sorted(self.n.items())), self.pos,
                len(self.console.outbox), tuple(k for (_c, _d, k) in self.console.outbox),
                tuple(c["status"] for c in self.calls), tuple(self.init_result), getattr(self, "reinit_started", False))

    def outcome(self):
        return repr((self.shutdown_state, self.init_result, len(self.net.conns),
                     [c["status"] for c in self.calls], len(self.console.requests)))

    def residual(self):
        """Tasks and timers of the client that are still scheduled (drivers excluded)."""
        drivers = {self.init_task, getattr(self, "sd_task", None)}
        tasks = [t for t in asyncio.all_tasks(self.loop) if t not in drivers and not t.done()
                 and not t.get_coro().__qualname__.startswith("ApiWorld.call")]      # the application's own calls
        timers = []
        for h in self.loop._scheduled:
            if h._cancelled:
                continue
            owner = getattr(getattr(h._callback, "__self__", None), "_task", None)
            if owner is not None and owner in drivers:
                continue           # the deadline of an init()/shutdown() call that is itself still running
            timers.append(h)
        return tasks, timers

    def finish(self):
        L = self.loop
        if self.shutdown_state is None:
            return None            # the oracle is about runs that contain a shutdown
        bad = []

        def chk():
            v = self.step_check()
            if v and not bad:
                bad.append(v)
        # let shutdown() itself finish (the network stays as it is: pending connects stay pending)
        t_stop = L.time() + 10.0
        if self.p.get("prompt_reinit") == "before-settle":
            L.settle()
            if getattr(self, "reinit_started", False):
                return self._reinit_oracle(prompt=True, started=True)
            return self._v("shutdown-returns", "shutdown() did not return (same-iteration re-init never started)") if self.shutdown_state != "returned" else None
        L.settle()
        chk()
        if self.shutdown_state != "returned":
            # a close() waiting for unsent bytes of a stalled stream: the statement is about what holds once shutdown()
            # has returned, so the environment lets it - the stall ends now
            for t in self.net.stalled():
                t.resume()
        while self.shutdown_state != "returned" and (L.has_ready() or (L.next_deadline() is not None and L.next_deadline() <= t_stop)):
            if not L.has_ready():
                L.advance_to(L.next_deadline())
            L.turn()
            chk()
        if bad:
            return bad[0]
        if self.shutdown_state != "returned":
            return self._v("shutdown-returns", "shutdown() did not return within 10 s of virtual time")
        # the moment shutdown() has returned (callbacks already queued may run, the clock does not move):
        # no timer and no task of the client is left
        L.settle()
        chk()
        if bad:
            return bad[0]
        tasks, timers = self.residual()
        if tasks or timers:
            what = [t.get_coro().__qualname__ for t in tasks] + [getattr(h._callback, "__qualname__", repr(h._callback)) + f" due in {round(h._when - L.time(), 3)} s" for h in timers]
            return self._v("nothing-left-scheduled", f"when shutdown() has returned the client still has scheduled: {what[:4]}")
        if self.p.get("prompt_reinit"):
            # the application re-initialises the same object the moment shutdown() has returned: whatever of the old
            # session is still winding down must not leak into the new one
            return self._reinit_oracle(prompt=True)
        L.run_until(t_stop, on_turn=chk)
        if bad:
            return bad[0]
        if not self.init_task.done():
            return self._v("init-returns", "init() still pending 10 s after shutdown()")
        # now an accepting network, for a long idle time
        self.net.auto = "accept"
        self.console.auto = True
        self.net.resolve_all(True)
        L.run_until(L.time() + 3.0, on_turn=chk)
        if bad:
            return bad[0]
        tasks, timers = self.residual()
        if tasks or timers:
            what = [t.get_coro().__qualname__ for t in tasks] + [getattr(h._callback, "__qualname__", repr(h._callback)) for h in timers]
            return self._v("nothing-left-scheduled", f"after shutdown() and quiescence the client still has scheduled: {what[:4]}")
        L.run_until(L.time() + IDLE, on_turn=chk)
        if bad:
            return bad[0]
        tasks, timers = self.residual()
        if tasks or timers:
            return self._v("nothing-left-scheduled", "tasks/timers appear during the idle horizon after shutdown()")
        if self.at.initialised:
            return self._v("initialised-false", "initialised is still True after shutdown()")
        if list(self.at.air_conditioners):
            return self._v("model-cleared", "air_conditioners not empty after shutdown()")
        rec = self.call_sync(self.at.check_for_updates, "send-after-shutdown")
        if rec["status"] != "raised:NotOpenError":
            return self._v("send-raises-not-open", f"command after shutdown(): {rec['status']}")
        for t in self.net.conns:
            if not t._closing:
                return self._v("every-connection-closed", f"connection {t.cid} is still open after shutdown()")
            if t.closed_by == "gc":
                return self._v("every-connection-closed", f"connection {t.cid} closed only by the garbage collector")
        v = self._after_shutdown()
        if v:
            return v
        # re-init against a different installation
        if self.p.get("reinit", True):
            v = self._reinit_oracle(prompt=False)
            if v:
                return v
        # Not part of the statement: a subscriber task orphaned by the cancellation in close() may end
        # with NotOpenError that nobody retrieves ("Task exception was never retrieved").  Counted only.
        self.unretrieved = len(self.loop_reports())
        return None

    def _switch_console(self):
        self.net.auto = "accept"
        self.console.auto = True
        self.net.resolve_all(True)
        new = _other_installation(self.gen)
        self.console.inst = new
        self.console.state = console.default_state(new)
        self.shutdown_mark = None
        self.reinit_n0 = len(self.console.requests)
        self.init_result.clear()

    def _reinit_oracle(self, prompt, started=False):
        L = self.loop
        if True:
            if not started:
                self._switch_console()
                self.init_task = self.start_init()
            n0 = self.reinit_n0
            L.run_until(L.time() + 6.0)
            if not self.init_result or self.init_result[-1][:2] != ("returned", True):
                return self._v("reinit-works", f"init() after shutdown(): {self.init_result}")
            kinds = [r[2] for r in self.console.requests[n0:]][:6]
            want = ["req-version", "req-names", "req-ability", "req-ac-status", "req-timer-status", "req-zone-status"]
            if kinds != want:
                return self._v("reinit-works", f"handshake after re-init: {kinds}")
            acs = list(self.at.air_conditioners)
            got = [(a.ac_id, a.name, [(z.zone_id, z.name) for z in a.zones]) for a in acs]
            exp = [(0, "OtherAC", [(0, "Alpha"), (1, "Beta"), (2, "Gamma")])]
            if got != exp:
                return self._v("reinit-rebuilds-model", f"model after re-init {got} != {exp}")
            if len(self.net.live()) != 1:
                return self._v("single-connection", f"{len(self.net.live())} live connections after re-init")
            # "works as on a fresh object": the periodic behaviour of the second life (heartbeat, AT4 poll) over
            # 700 s of idle time must equal that of a fresh object against the same console
            t_init = self.init_result[-1][2]
            n1 = len(self.console.requests)
            L.run_until(t_init + 700.0)
            second = [(round(r[0] - t_init, 6), r[2]) for r in self.console.requests[n1:]]
            fresh = fresh_life(self.gen)
            if second != fresh:
                return self._v("reinit-behaves-like-fresh", f"requests during 700 s after re-init {second} differ from a fresh object's {fresh}")
        return None


def run(tier, seed, part=None):
    chk = runner.Check("C15", tier, seed, "model_checking")
    chk.trusted_base = ["CPython 3.12 asyncio unmodified", "pvmc.vloop.VLoop", "pvmc.simnet", "pvmc.console.SimConsole (pvmc.ref)"]
    chk.assumptions = ["shutdown() is called once per run, at any turn boundary (mid-reaction = one deviation)",
                       "connection notifications are observed through a subscriber on the API object's socket"]
    A = [["accept"]] + [["answer"]] * 6
    scripts = {
        "handshake+heartbeat+poll": A + [["tick"], ["answer"], ["tick"], ["answer"], ["cmd"], ["answer"]],
        "refused+backoff": [["refuse"], ["tick"], ["accept"], ["answer"], ["answer"]],
        "pending-while-down": [["cmd"], ["accept"], ["answer"], ["answer"], ["answer"]],
        "eof+reconnect+refresh": A + [["eof"], ["cmd"], ["accept"], ["answer"], ["answer"], ["answer"]],
        # a command (application task, not one of the socket's own tasks) hits a write error: its
        # reset_connection() is in flight when shutdown() lands
        "write-error-in-command": A + [["failw"], ["cmd"], ["accept"], ["answer"], ["answer"]],
        "write-error-in-handshake": [["accept"], ["answer"], ["failw"], ["answer"], ["accept"], ["answer"]],
        # back-pressure: the heartbeat (t=300) and a command find the stream stalled and park in drain();
        # shutdown() lands while they are parked (and must not wait for a stream that never drains)
        "stalled-heartbeat-and-command": A + [["stall"], ["tick"], ["cmd"], ["cmd"], ["tick"]],
    }
    cap = 50 if tier == "quick" else 300
    for gen in (4, 5):
        for name, script in scripts.items():
            params = {"gen": gen, "script": script, "max_tick": 99}
            res = explorer.explore(SPEC, params, len(script) + 1, 1, time_cap=cap, seed=seed, label=f"at{gen}/{name}")
            chk.add_explorer(f"at{gen}/backbone/{name}", SPEC, params, res,
                             {"script_events": len(script), "shutdown": "at every turn boundary", "deviations": 1})
        # ... and the same for the handshake backbones with init() called again the moment shutdown() has returned
        for name, mode in (("handshake+heartbeat+poll", True), ("pending-while-down", True), ("handshake+heartbeat+poll", "before-settle"),
                           ("stalled-heartbeat-and-command", True)):
            script = scripts[name][:8] if not name.startswith("stalled") else scripts[name]
            params = {"gen": gen, "script": script, "max_tick": 99, "prompt_reinit": mode}
            res = explorer.explore(SPEC, params, len(script) + 1, 1, time_cap=cap, seed=seed, label=f"at{gen}/{name}/prompt-reinit/{mode}")
            chk.add_explorer(f"at{gen}/backbone/{name}/prompt-reinit" + ("" if mode is True else "/same-iteration"), SPEC, params, res,
                             {"script_events": len(script), "shutdown": "at every turn boundary", "then": "init() at once", "deviations": 1})
        if tier == "thorough":
            for depth, dev in [(9, 1), (7, 2)]:
                params = {"gen": gen, "max_tick": 3, "failw": True}
                res = explorer.explore(SPEC, params, depth, dev, time_cap=cap, seed=seed, label=f"at{gen}/d{depth}/v{dev}")
                chk.add_explorer(f"at{gen}/free", SPEC, params, res, {"depth": depth, "deviations": dev})
    chk.add_audit(SPEC, {"gen": 4, "script": [["accept"], ["answer"], ["answer"]], "max_tick": 99}, 4, 1, limit=1500 if tier == "thorough" else 300)
    return chk.finish()
