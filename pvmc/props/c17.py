"""C17 - unknown and malformed input is tolerated, never misread (DESIGN §6 C17)."""
from __future__ import annotations

from .. import explorer, libview, runner
from ..ref import at4, at5, framing
from ..ref.at4 import Malformed
from . import c05, c06

KNOWN_TYPES = {4: {0x1F, 0x2A, 0x2B, 0x2C, 0x2D, 0x36, 0x37}, 5: {0x1F, 0xC0}}
KNOWN_EXT = {4: {0xFF10, 0xFF11, 0xFF12, 0xFF20, 0xFF30}, 5: {0xFF10, 0xFF11, 0xFF13, 0xFF30, 0xFF49}}
KNOWN_C0 = {0x20, 0x21, 0x22, 0x23, 0x32, 0x33}


def ref_read_frame(gen, fr):
    """-> ('unknown', payload) | ('request', None) | (kind, reading) | ('uncompared', None); raises Malformed."""
    d = fr.data
    if fr.typ not in KNOWN_TYPES[gen]:
        return "unknown", d
    if fr.typ == 0x1F:
        sub, p = at4.split_ext(d)
        if sub not in KNOWN_EXT[gen]:
            return "unknown-ext", (sub, p)
        if sub == 0xFF30:
            return ("request", None) if not p else ("version", at4.read_version(p, b"|" if gen == 4 else b","))
        if sub == 0xFF10:
            return ("request", None) if len(p) == 1 else ("error", at4.read_error(p))
        if sub == 0xFF11:
            return ("request", None) if len(p) <= 1 else ("ability", (at4 if gen == 4 else at5).read_ability(p))
        if sub in (0xFF12, 0xFF13):
            return ("request", None) if len(p) <= 1 else ("names", at4.read_group_names(p) if gen == 4 else at5.read_zone_names(p))
        return "uncompared", None
    if gen == 4:
        if fr.typ in (0x2B, 0x2D, 0x37):
            if not d:
                return "request", None
            return {0x2B: ("zone-status", at4.read_group_status), 0x2D: ("ac-status", at4.read_ac_status),
                    0x37: ("timer-status", at4.read_timer_slots)}[fr.typ][0], \
                {0x2B: at4.read_group_status, 0x2D: at4.read_ac_status, 0x37: at4.read_timer_slots}[fr.typ](d)
        return "uncompared", None
    sub, normal, rl, rc, rest = at5.split_c0(d)
    if sub not in KNOWN_C0:
        return "unknown-c0", (sub, rest)
    if sub in (0x21, 0x23, 0x33):
        if rc == 0 and rl == 0:
            return "request", None
        fn = {0x21: at5.read_zone_status, 0x23: at5.read_ac_status, 0x33: at5.read_timer_records}[sub]
        return {0x21: "zone-status", 0x23: "ac-status", 0x33: "timer-status"}[sub], fn(normal, rl, rc, rest)
    return "uncompared", None


STREAMS = set()
MEANING = [0]


def feed_and_judge(gen, raw, probe, label, then=None):
    """Feed ``raw`` (+ optional EOF / follow-up) to a fresh receive path; judge per the C17 oracle."""
    STREAMS.add((gen, then, raw))
    w = c06.RxWorld(gen)
    t = w.net.live()[-1]
    t.peer_send(raw)
    if then == "eof":
        t.peer_eof()
    w.loop.settle()
    frames, residue, err = framing.split(gen, raw)
    clean = (not err and not residue and len(frames) >= 1 and all(f.crc_ok and (gen == 4 or f.outer_ok) for f in frames))
    got = list(w.got)
    if clean and then is None:
        exp = []
        ok_all = True
        for fr in frames:
            try:
                exp.append(ref_read_frame(gen, fr))
            except Malformed:
                ok_all = False
                break
        if ok_all:
            MEANING[0] += 1
            # every frame has a defined meaning: what is delivered must be that meaning, in order, as a prefix
            if len(got) > len(exp):
                return f"{label}: {len(got)} messages delivered for {len(exp)} frames"
            for (hdr, msg), (kind, reading), fr in zip(got, exp, frames):
                lk, lv = libview.view(gen, msg)
                if kind.startswith("unknown"):
                    if lk != "unsupported":
                        return f"{label}: unknown type/sub-type decoded as {lk}"
                    payload = reading if kind == "unknown" else reading[1]
                    if lv["raw"] != payload:
                        return f"{label}: unsupported message carries {lv['raw'].hex()}, frame payload is {payload.hex()}"
                elif kind == "request":
                    if not lk.startswith("request") and lk != "unsupported":
                        return f"{label}: a request-shaped frame was decoded as {lk}"
                elif kind == "uncompared":
                    pass
                else:
                    if lk != kind:
                        return f"{label}: decoded as {lk}, vendor reading is {kind}"
                    p = c05.compare(kind, reading, lv, {})
                    if p:
                        return f"{label}: {p}"
            unknown_only = all(k.startswith("unknown") for k, _ in exp)
            if unknown_only and (len(got) != len(exp) or len(w.net.conns) != 1):
                return (f"{label}: well-formed frame(s) of unknown type must be delivered as unsupported without "
                        f"disturbing the connection: delivered {len(got)}/{len(exp)}, connections {len(w.net.conns)}")
    # robustness, always: no unhandled exception, and an intact frame afterwards is delivered
    # (after at most one re-connection)
    rep = w.loop_reports()
    if rep:
        return f"{label}: unhandled exception reached the event loop: {rep[:1]}"
    fed = 0
    conns0 = len(w.net.conns)
    burst = 1
    while fed < 70000 + 40 * len(probe):
        live = w.net.live()
        if not live or live[-1].eof_from_peer:
            w.loop.run_until(w.loop.time() + 2.5)
            live = w.net.live()
            if not live:
                return f"{label}: the client did not re-connect"
        g0 = len(w.got)
        live[-1].peer_send(probe * burst)     # a reader stuck on a huge bogus length needs many bytes
        fed += len(probe) * burst
        burst = min(burst * 4, 256)
        w.loop.settle()
        if len(w.got) > g0:
            h, m = w.got[-1]
            break
    else:
        return f"{label}: no intact frame delivered within 70 kB after the input"
    if len(w.net.conns) - conns0 > 1:
        return f"{label}: {len(w.net.conns) - conns0} re-connections were needed"
    rep = w.loop_reports()
    if rep:
        return f"{label}: unhandled exception reached the event loop: {rep[:1]}"
    return None


def job_types(job):
    gen, lo, hi, tier = job
    probe = c06.corpus(gen)[3][1]
    n = 0
    for typ in range(lo, hi):
        for ln in (0, 1, 2, 8, 9):
            payload = bytes((typ + i * 7) & 0xFF for i in range(ln))
            raw = framing.frame(gen, 0xB0, 0x80, typ, typ, payload)
            n += 1
            p = feed_and_judge(gen, raw, probe, f"at{gen} type 0x{typ:02x} len {ln}")
            if p:
                return n, f"at{gen}:type", p
    return n, None, None


def job_subids(job):
    gen, lo, hi, tier = job
    probe = c06.corpus(gen)[3][1]
    n = 0
    for sub in range(lo, hi):
        for ln in (0, 3):
            payload = bytes([sub >> 8, sub & 0xFF]) + bytes((sub + i) & 0xFF for i in range(ln))
            raw = framing.frame(gen, 0xB0, 0x90, 1, 0x1F, payload)
            n += 1
            p = feed_and_judge(gen, raw, probe, f"at{gen} ext sub-id 0x{sub:04x} len {ln}")
            if p:
                return n, f"at{gen}:ext-subid", p
    return n, None, None


def job_c0(job):
    gen, lo, hi, tier = job
    probe = c06.corpus(5)[3][1]
    n = 0
    for sub in range(lo, hi):
        for normal, rl, rc in ((0, 0, 0), (2, 0, 0), (0, 4, 1), (0, 8, 2), (1, 9, 1), (0, 10, 3), (0, 0, 5), (3, 0, 7)):
            body = bytes((sub + i) & 0xFF for i in range(normal + rl * rc))
            payload = bytes([sub, 0, normal >> 8, normal & 0xFF, rl >> 8, rl & 0xFF, rc >> 8, rc & 0xFF]) + body
            raw = framing.at5_frame(0xB0, 0x80, 1, 0xC0, payload)
            n += 1
            p = feed_and_judge(5, raw, probe, f"at5 0xC0 sub-type 0x{sub:02x} normal={normal} repeat={rl}x{rc}")
            if p:
                return n, "at5:c0-subtype", p
    return n, None, None


def job_mutate(job):
    gen, name, frame, positions, tier = job
    probe = c06.corpus(gen)[3][1]
    s = 2 if gen == 4 else 14
    n = 0
    found = []
    for pos in positions:
        for v in range(256):
            if frame[pos] == v:
                continue
            b = bytearray(frame)
            b[pos] = v
            if s <= pos < len(frame) - 2:
                b[-2:] = framing.crc_bytes(bytes(b[s:-2]))      # CRC recomputed: the mutation is "valid" on the wire
            n += 1
            p = feed_and_judge(gen, bytes(b), probe, f"at{gen} {name} byte {pos} := 0x{v:02x}")
            if p:
                found.append((f"at{gen}:mutated:{name}:data-byte{pos - s - 6}" if pos >= s + 6 else f"at{gen}:mutated:{name}:header-byte{pos}", p))
                break
    return n, found, None


def job_truncate(job):
    gen, name, frame, tier = job
    probe = c06.corpus(gen)[3][1]
    other = c06.corpus(gen)[0][1]
    n = 0
    for cut in range(0, len(frame)):
        for then in ("eof", "intact"):
            n += 1
            if then == "eof":
                p = feed_and_judge(gen, frame[:cut], probe, f"at{gen} {name} truncated at {cut} then EOF", then="eof")
            else:
                p = feed_and_judge(gen, frame[:cut] + other, probe, f"at{gen} {name} truncated at {cut} then an intact frame", then="junk")
            if p:
                return n, f"at{gen}:truncated:{name}", p
    # concatenations of two mutated frames
    for i in range(0, len(frame), 3):
        b = bytearray(frame)
        b[i] ^= 0x5A
        n += 1
        p = feed_and_judge(gen, bytes(b) + bytes(b), probe, f"at{gen} {name} two corrupted copies (byte {i})", then="junk")
        if p:
            return n, f"at{gen}:concatenated:{name}", p
    return n, None, None


def job_strides(job):
    gen, tier = job
    probe = c06.corpus(5)[3][1]
    n = 0
    for li, lay in enumerate(c05.LAYOUTS):
        if lay.gen != 5:
            continue
        for stride in range(lay.size, lay.size + 9):
            for cnt in (1, 2, 3):
                data = lay.wrap([lay.bases[i % 3] for i in range(cnt)], stride=stride)
                raw = framing.at5_frame(0xB0, 0x80, 1, 0xC0, data)
                n += 1
                w = c06.RxWorld(5)
                w.net.live()[-1].peer_send(raw)
                w.loop.settle()
                if len(w.got) != 1 or len(w.net.conns) != 1:
                    return n, f"at5:stride:{lay.name}", f"{lay.name} with announced stride {stride} x {cnt}: delivered {len(w.got)}, connections {len(w.net.conns)}"
                kind, seen = libview.view(5, w.got[0][1])
                p = c05.compare(kind, lay.read(data), seen, {})
                if p:
                    return n, f"at5:stride:{lay.name}", f"{lay.name} stride {stride}: {p}"
    return n, None, None


def replay_input(rp):
    return rp.get("message")


def run(tier, seed, part=None):
    chk = runner.Check("C17", tier, seed, "exploration")
    chk.trusted_base = ["pvmc.ref readers (vendor documents)", "pvmc.vloop / pvmc.simnet", "pvmc.libview"]
    chk.assumptions = ["input whose reference reading is undefined (malformed under the documents, or a length/prefix byte was hit) "
                       "only has to be survived: no unhandled exception, an intact frame is delivered after at most one re-connection",
                       "control messages (client-to-console kinds) received from the peer are not compared field by field"]
    jobs = []
    for gen in (4, 5):
        for lo in range(0, 256, 16):
            jobs.append((job_types, (gen, lo, lo + 16, tier)))
        if tier == "thorough":
            for lo in range(0, 65536, 1024):
                jobs.append((job_subids, (gen, lo, lo + 1024, tier)))
        else:
            for lo in (0x0000, 0x0080, 0xFF00, 0xFF80, 0x1F00, 0x8000):
                jobs.append((job_subids, (gen, lo, lo + 128, tier)))
        for name, frame in c06.corpus(gen):
            step = 4 if tier == "quick" else 1
            pos = list(range(len(frame)))
            for k in range(0, len(pos), 8):
                chunk = pos[k:k + 8]
                jobs.append((job_mutate, (gen, name, frame, chunk, tier)))
            jobs.append((job_truncate, (gen, name, frame, tier)))
    for lo in range(0, 256, 16):
        jobs.append((job_c0, (5, lo, lo + 16, tier)))
    jobs.append((job_strides, (5, tier)))
    res = explorer.pool().starmap(_call, jobs, chunksize=1)
    total = 0
    kinds = {}
    distinct = 0
    meaning = 0
    for (fn, args), (n, sig, msg, k) in zip(jobs, res):
        total += n
        distinct += k[0]
        meaning += k[1]
        kinds[fn.__name__] = kinds.get(fn.__name__, 0) + n
        if isinstance(sig, list):
            for sg, m in sig:
                chk.violation(sg, m, {"kind": "input", "module": "pvmc.props.c17", "message": m})
        elif msg:
            chk.violation(sig, msg, {"kind": "input", "module": "pvmc.props.c17", "message": msg})
    chk.cov["by_family"] = kinds
    chk.samples += [{"input": "at4 frame type 0x99 with 8 payload bytes"}, {"input": "at5 zone-status frame, byte 23 := 0x80, CRC recomputed"},
                    {"input": "at4 ability frame truncated at byte 17 then EOF"}]
    chk.cov["judged_by_meaning"] = meaning
    return chk.finish({"evaluations": total, "distinct_nontrivial": distinct, "exhaustive": True,
                       "rule": "one evaluation = one byte stream fed to the real receive path followed by intact probe frames; streams are "
                               "distinct by construction (type x length, sub-id x length, 0xC0 sub-type x header corners, every byte "
                               "position x every value with recomputed CRC, every truncation point, concatenations); distinct_nontrivial = number of "
                               "distinct byte streams (counted with a set per job); judged_by_meaning = how many had a fully defined reference "
                               "reading and were compared with it, the rest were judged for survival"})


def _call(fn, args):
    r = fn(args)
    k = (len(STREAMS), MEANING[0])
    STREAMS.clear()
    MEANING[0] = 0
    return r + (k,)
