"""C11 - invalid requests are refused locally; valid ones are shaped as documented (DESIGN §6 C11)."""
from __future__ import annotations

import datetime
import itertools

from .. import console, explorer, runner
from ..ref.at4 import KEEP
from . import cmdcommon as cc

MODES = ["auto", "heat", "dry", "fan", "cool"]
FANS4 = ["auto", "quiet", "low", "medium", "high", "powerful", "turbo"]
FANS5 = FANS4 + ["intelligent_auto"]


def writes_since(w, i0):
    return [e for e in w.net.log[i0:] if e[1] in ("write", "write_fail", "write_after_loss")]


JUDGED = set()


def call_expect(w, gen, fn, label, sig, bad, supported, matcher, kind="ac-control", ext=False):
    """supported: True -> accepted, exactly one frame with the right meaning; False -> ValueError, zero bytes."""
    JUDGED.add(label)
    i0 = len(w.net.log)
    rec, frames = cc.issue(w, fn)
    wr = writes_since(w, i0)
    if not supported:
        if rec["status"] != "ValueError":
            bad.append((sig + ":not-refused", f"{label}: not advertised / invalid, but the call ended with {rec['status']}"))
        elif wr:
            bad.append((sig + ":bytes-after-refusal", f"{label}: ValueError raised but {len(wr)} chunks were written"))
        return
    if rec["status"] != "returned":
        bad.append((sig + ":refused-valid", f"{label}: valid request ended with {rec['status']} {rec.get('msg', '')}"))
        return
    cmds = [f for f in frames if f[2] != "req-error"]
    if len(cmds) != 1:
        bad.append((sig + ":frame-count", f"{label}: {len(cmds)} frames for one accepted call"))
        return
    fr = cmds[0][3]
    p = cc.envelope_problem(gen, fr, ext)
    if p:
        bad.append((sig + ":envelope", f"{label}: {p}"))
        return
    k, reading = cc.read_command(gen, fr)
    if k != kind:
        bad.append((sig + ":kind", f"{label}: frame is {k}, expected {kind}"))
        return
    p = matcher(reading)
    if p:
        bad.append((sig, f"{label}: {p} [data {fr.data.hex()}]"))


def ability_job(job):
    """One init with several ACs, each with its own (modes, fans) ability bitmap."""
    import pyairtouch as A
    gen, combos = job
    n_ac = len(combos)
    inst = console.default_installation(gen, n_ac, (1,) + tuple(0 for _ in range(n_ac - 1)))
    for a, (modes, fans) in zip(inst["acs"], combos):
        a["modes"], a["fans"] = set(modes), set(fans)
    w = cc.initialised(gen, inst)
    bad = []
    n = 0
    pcs = {"TOGGLE", "TURN_OFF", "TURN_ON"} | ({"SET_TO_AWAY", "SET_TO_SLEEP"} if gen == 5 else set())
    for ac in sorted(w.at.air_conditioners, key=lambda x: x.ac_id):
        a = ac.ac_id
        modes, fans = combos[a]
        tag = f"at{gen} ac{a} modes={sorted(modes)} fans={sorted(fans)}"
        got_m = sorted(m.name.lower() for m in ac.supported_modes)
        got_f = sorted(f.name.lower() for f in ac.supported_fan_speeds)
        if got_m != sorted(modes) or got_f != sorted(fans):
            bad.append((f"at{gen}:supported-lists", f"{tag}: supported_modes {got_m} / fan speeds {got_f}"))
        for m in A.AcMode:
            n += 1
            call_expect(w, gen, lambda: ac.set_mode(m), f"{tag}.set_mode({m.name})", f"at{gen}:set_mode:{m.name}", bad,
                        m.name.lower() in modes, lambda r: cc.match_ac_control(gen, r, cc.ac_intent(a, mode=m.name.lower())))
        for f in A.AcFanSpeed:
            n += 1
            call_expect(w, gen, lambda: ac.set_fan_speed(f), f"{tag}.set_fan_speed({f.name})", f"at{gen}:set_fan_speed:{f.name}", bad,
                        f.name.lower() in fans, lambda r: cc.match_ac_control(gen, r, cc.ac_intent(a, fan=f.name.lower())))
        for pc in A.AcPowerControl:
            n += 1
            call_expect(w, gen, lambda: ac.set_power(pc), f"{tag}.set_power({pc.name})", f"at{gen}:set_power:{pc.name}", bad,
                        pc.name in pcs, lambda r: cc.match_ac_control(gen, r, cc.ac_intent(a, power=cc.PC[pc.name])))
    # the console reports, for each AC, a mode and a fan speed the ability record does NOT advertise (set at the wall
    # panel, or by a firmware that advertises less than it does): what the client refuses still follows the ability
    for ac in sorted(w.at.air_conditioners, key=lambda x: x.ac_id):
        a = ac.ac_id
        modes, fans = combos[a]
        m_un = next((m for m in MODES if m not in modes), None)
        f_un = next((f for f in (FANS4 if gen == 4 else FANS5) if f not in fans and f not in ("auto", "intelligent_auto")), None)
        if m_un is None and f_un is None:
            continue
        st = w.console.state["ac"][a]
        if m_un:
            st["mode"] = m_un
        if f_un:
            st["fan"] = f_un
        w.console.send_raw(w.console.ac_status_frame(only=[a]))
        w.loop.settle()
        tag = f"at{gen} ac{a} modes={sorted(modes)} fans={sorted(fans)} after a status reporting mode={m_un} fan={f_un}"
        got_m = sorted(m.name.lower() for m in ac.supported_modes)
        got_f = sorted(f.name.lower() for f in ac.supported_fan_speeds)
        if got_m != sorted(modes) or got_f != sorted(fans):
            bad.append((f"at{gen}:supported-lists-after-status", f"{tag}: supported_modes {got_m} / fan speeds {got_f}"))
        if m_un:
            n += 1
            m = A.AcMode[m_un.upper()]
            call_expect(w, gen, lambda: ac.set_mode(m), f"{tag}.set_mode({m.name})", f"at{gen}:set_mode-after-status:{m.name}", bad,
                        False, lambda r: None)
        if f_un:
            n += 1
            f = A.AcFanSpeed[f_un.upper()]
            call_expect(w, gen, lambda: ac.set_fan_speed(f), f"{tag}.set_fan_speed({f.name})", f"at{gen}:set_fan_speed-after-status:{f.name}", bad,
                        False, lambda r: None)
    k = len(JUDGED)
    JUDGED.clear()
    return n, bad, k


def ability_jobs(gen, tier):
    fans = FANS4 if gen == 4 else FANS5
    per = 4 if gen == 4 else 16
    mode_sets = [tuple(m for i, m in enumerate(MODES) if b >> i & 1) for b in range(32)]
    fan_sets = [tuple(f for i, f in enumerate(fans) if b >> i & 1) for b in range(1 << len(fans))]
    if tier == "thorough":
        combos = list(itertools.product(mode_sets, fan_sets))
    else:
        pick_f = [fan_sets[0], fan_sets[-1], fan_sets[0b0101010 % len(fan_sets)], fan_sets[1]]
        pick_m = [mode_sets[0], mode_sets[-1], mode_sets[0b10101], mode_sets[0b00010]]
        combos = list(itertools.product(mode_sets, pick_f)) + list(itertools.product(pick_m, fan_sets))
    return [(gen, combos[i:i + per]) for i in range(0, len(combos), per)]


def grid(lo, hi, step=0.05):
    return [round(lo + i * step, 2) for i in range(int(round((hi - lo) / step)) + 1)]


def values_job(job):
    """Set-point rounding/clamping under every mode-dependent limit pair; zones; timers."""
    import pyairtouch as A
    gen, part = job
    bad = []
    n = 0
    res = 1.0 if gen == 4 else 0.1
    if part == "ac-setpoint":
        inst = console.default_installation(gen, 2, (1, 1))
        if gen == 4:
            inst["acs"][0].update({"min": 17, "max": 31})
            inst["acs"][1].update({"min": 20, "max": 20})
        else:
            inst["acs"][0].update({"min_cool": 17, "max_cool": 31, "min_heat": 15, "max_heat": 28})
            inst["acs"][1].update({"min_cool": 20, "max_cool": 20, "min_heat": 19, "max_heat": 21})
        w = cc.initialised(gen, inst)
        for ac in sorted(w.at.air_conditioners, key=lambda x: x.ac_id):
            a = ac.ac_id
            for mode in (["cool"] if gen == 4 else ["cool", "heat", "auto", "auto_heat", "auto_cool", "dry", "fan"]):
                w.console.state["ac"][a]["mode"] = mode
                w.console.send_raw(w.console.ac_status_frame(only=[a]))
                w.loop.settle()
                lo, hi = ac.min_target_temperature, ac.max_target_temperature
                ab = inst["acs"][a]
                if gen == 5:
                    pairs = {"heat": [(ab["min_heat"], ab["max_heat"])], "cool": [(ab["min_cool"], ab["max_cool"])]}
                    union = (min(ab["min_heat"], ab["min_cool"]), max(ab["max_heat"], ab["max_cool"]))
                    ok_pairs = pairs.get(mode) or (pairs["heat"] + [union] if mode == "auto_heat" else
                                                   pairs["cool"] + [union] if mode == "auto_cool" else
                                                   [union] + pairs["heat"] + pairs["cool"])
                    if (lo, hi) not in ok_pairs:
                        bad.append((f"at5:limits-follow-mode:{mode}", f"at5 ac{a} mode {mode}: limits [{lo}, {hi}] not among {ok_pairs}"))
                        continue
                for t in grid(-5.0, 50.0):
                    n += 1
                    allowed = cc.clamp_round(t, lo, hi, res)

                    def m_sp(r, allowed=allowed, t=t):
                        base = cc.match_ac_control(gen, r, cc.ac_intent(a, setpoint=r["setpoint"] if r["setpoint_ctl"] == "set" else 0))
                        if base:
                            return base
                        v = r["setpoint"]
                        if not (lo - 1e-9 <= v <= hi + 1e-9):
                            return f"set-point {v} outside the current limits [{lo}, {hi}] (requested {t})"
                        if abs(v / res - round(v / res)) > 1e-6:
                            return f"set-point {v} is not a multiple of the resolution {res}"
                        if round(v, 6) not in allowed:
                            return f"requested {t}, limits [{lo}, {hi}]: frame sets {v}, admissible {sorted(allowed)}"
                        return None
                    call_expect(w, gen, lambda: ac.set_target_temperature(t), f"at{gen} ac{a} mode {mode} set_target_temperature({t})",
                                f"at{gen}:ac-setpoint:{mode}", bad, True, m_sp)
    elif part == "zones":
        inst = console.default_installation(gen, 1, (4,))
        st = console.default_state(inst)
        st["zone"][0].update({"sensor": True, "turbo_support": True})
        st["zone"][1].update({"sensor": False, "turbo_support": False})
        st["zone"][2].update({"sensor": True, "turbo_support": False})
        st["zone"][3].update({"sensor": False, "turbo_support": True})
        w = cc.initialised(gen, inst, st)
        zones = {z.zone_id: z for ac in w.at.air_conditioners for z in ac.zones}
        for zid, z in sorted(zones.items()):
            zs = st["zone"][zid]
            for p in range(-5, 106):
                n += 1
                call_expect(w, gen, lambda: z.set_damper_percentage(p), f"at{gen} zone{zid}.set_damper_percentage({p})",
                            f"at{gen}:zone-damper", bad, 0 <= p <= 100,
                            lambda r: cc.match_zone_control(gen, r, cc.zone_intent(zid, setting="percent", value=p, methods=(KEEP, "percent"))),
                            kind="zone-control")
            for t in (grid(0.0, 45.0) if gen == 4 else grid(10.0, 35.0)):
                n += 1
                allowed = cc.clamp_round(t, -1000, 1000, res)

                def m_zt(r, allowed=allowed, t=t):
                    if r["setting"] != "setpoint":
                        return f"setting {r['setting']!r}"
                    base = cc.match_zone_control(gen, r, cc.zone_intent(zid, setting="setpoint", value=r["value"], methods=(KEEP, "temperature")))
                    if base:
                        return base
                    if round(r["value"], 6) not in allowed:
                        return f"requested {t}: frame sets {r['value']}, admissible {sorted(allowed)}"
                    return None
                call_expect(w, gen, lambda: z.set_target_temperature(t), f"at{gen} zone{zid} sensor={zs['sensor']}.set_target_temperature({t})",
                            f"at{gen}:zone-setpoint:sensor={zs['sensor']}", bad, zs["sensor"], m_zt, kind="zone-control")
            for ps in A.ZonePowerState:
                n += 1
                sup = ps.name != "TURBO" or gen == 5 or zs["turbo_support"]
                call_expect(w, gen, lambda: z.set_power(ps), f"at{gen} zone{zid} turbo_support={zs['turbo_support']}.set_power({ps.name})",
                            f"at{gen}:zone-power:{ps.name}", bad, sup,
                            lambda r: cc.match_zone_control(gen, r, cc.zone_intent(zid, power=ps.name.lower())), kind="zone-control")
        # the same zone objects after the console reports the opposite: sensors fitted or removed, turbo support gained
        # or lost (every zone has been asked everything above, so anything that latched on first use shows now)
        for zid in zones:
            zs = w.console.state["zone"][zid]
            zs["sensor"] = not zs["sensor"]
            zs["turbo_support"] = not zs["turbo_support"]
            if zs["sensor"]:
                zs.update({"temperature": 22.5, "setpoint": 22 if gen == 4 else 22.0})
        w.console.send_raw(w.console.zone_status_frame())
        w.loop.settle()
        for zid, z in sorted(zones.items()):
            zs = w.console.state["zone"][zid]
            n += 2
            t = 23.0
            call_expect(w, gen, lambda: z.set_target_temperature(t), f"at{gen} zone{zid} now reported with sensor={zs['sensor']}: set_target_temperature({t})",
                        f"at{gen}:zone-setpoint:after-flip:sensor={zs['sensor']}", bad, zs["sensor"],
                        lambda r: cc.match_zone_control(gen, r, cc.zone_intent(zid, setting="setpoint", value=r["value"], methods=(KEEP, "temperature"))),
                        kind="zone-control")
            sup = gen == 5 or zs["turbo_support"]
            call_expect(w, gen, lambda: z.set_power(A.ZonePowerState.TURBO), f"at{gen} zone{zid} now reported with turbo_support={zs['turbo_support']}: set_power(TURBO)",
                        f"at{gen}:zone-power:after-flip:TURBO", bad, sup,
                        lambda r: cc.match_zone_control(gen, r, cc.zone_intent(zid, power="turbo")), kind="zone-control")
    elif part == "timers":
        inst = console.default_installation(gen, 2, (1, 1))
        w = cc.initialised(gen, inst)
        ac = {x.ac_id: x for x in w.at.air_conditioners}[1]
        states = [None, (0, 0), (7, 30), (23, 59)]
        for on, off in itertools.product(states, states):
            rep = {"ac": 1, "on": cc.timer_state(on), "off": cc.timer_state(off)}
            # a disabled timer as reported by a console may still carry hour/minute bits
            if on is None:
                rep["on"].update({"hour": 5, "minute": 7})
            w.console.state["timer"][1] = rep
            w.console.send_raw(w.console.timer_status_frame())
            w.loop.settle()
            # between the timer report and the calls the AC reports other things: a temperature drift, and its
            # "timer set" flag both ways - none of which says anything about the timers themselves
            st1 = w.console.state["ac"][1]
            st1["temperature"] = 20.0 + (hash((on, off)) % 7)
            st1["timer"] = not st1.get("timer", False)
            w.console.send_raw(w.console.ac_status_frame(only=[1]))
            w.loop.settle()
            for tt in A.AcTimerType:
                which = "on" if tt.name == "ON_TIMER" else "off"
                other = "off" if which == "on" else "on"
                for new in ((6, 45), None):
                    n += 1
                    if new is None:
                        fn = lambda: ac.clear_quick_timer(tt)  # noqa: E731
                    else:
                        fn = lambda: ac.set_quick_timer(tt, datetime.time(hour=new[0], minute=new[1]))  # noqa: E731
                    # (the console stores what it is told: take the other timer as reported BEFORE the call)
                    before = dict(w.console.state["timer"][1][other])
                    call_expect(w, gen, fn, f"at{gen} ac1 reported on={on} off={off}: {'clear' if new is None else 'set'} {which}",
                                f"at{gen}:timer-other-untouched", bad, True,
                                lambda r: cc.match_timer_control(gen, r, 1, which, cc.timer_state(new), before), kind="timer-control")
        # a timer command that never reaches the console (queued during an outage that outlasts its lifetime): what the
        # next command says about the OTHER timer is still what the console last reported, not what was asked for
        for tt in A.AcTimerType:
            which = "on" if tt.name == "ON_TIMER" else "off"
            other = "off" if which == "on" else "on"
            rep = {"ac": 1, "on": cc.timer_state(None), "off": cc.timer_state(None)}
            rep[other] = cc.timer_state((22, 10))
            w.console.state["timer"][1] = rep
            w.console.send_raw(w.console.timer_status_frame())
            w.loop.settle()
            other_tt = [x for x in A.AcTimerType if x is not tt][0]
            w.net.auto = None
            w.net.live()[-1].peer_eof()
            w.loop.settle()
            n0 = len(w.console.requests)
            w.call(lambda: ac.set_quick_timer(other_tt, datetime.time(hour=5, minute=5)), "lost timer command")
            w.loop.run_until(w.loop.time() + 31.0)
            w.net.auto = "accept"
            w.net.resolve_all(True)
            w.loop.run_until(w.loop.time() + 3.0)
            n += 1
            if any(r[2] == "cmd-timer" for r in w.console.requests[n0:]):
                bad.append((f"at{gen}:timer-command-after-expiry", f"at{gen}: a timer command queued 31 s before the link came back was transmitted"))
                continue
            before = dict(w.console.state["timer"][1][other])
            call_expect(w, gen, lambda: ac.set_quick_timer(tt, datetime.time(hour=6, minute=45)),
                        f"at{gen} ac1: set {other} timer during an outage (lost after 30 s), then set {which}",
                        f"at{gen}:timer-other-untouched", bad, True,
                        lambda r: cc.match_timer_control(gen, r, 1, which, cc.timer_state((6, 45)), before), kind="timer-control")
    k = len(JUDGED)
    JUDGED.clear()
    return n, bad, k


def replay_input(rp):
    if rp["what"] == "ability":
        n, bad, _k = ability_job((rp["gen"], [tuple(map(tuple, c)) for c in rp["combos"]]))
    else:
        n, bad, _k = values_job((rp["gen"], rp["part"]))
    for sig, msg in bad:
        if sig == rp["sig"]:
            return msg
    return None


def run(tier, seed, part=None):
    chk = runner.Check("C11", tier, seed, "exploration")
    chk.trusted_base = ["pvmc.ref (vendor documents)", "intent table pvmc.props.cmdcommon", "pvmc.console.SimConsole"]
    chk.assumptions = ["zone set-points enumerated inside the representable range (AT5 10.0-35.0, AT4 0-45)",
                       "at exact rounding ties either neighbour is accepted",
                       "AT5 limits for auto/dry/fan modes: heat pair, cool pair or union accepted"]
    total = 0
    judged = 0
    for gen in (4, 5):
        jobs = ability_jobs(gen, tier)
        res = explorer.pool().map(ability_job, jobs, chunksize=4)
        nn = 0
        for job, (n, bad, k) in zip(jobs, res):
            nn += n
            judged += k
            for sig, msg in bad:
                chk.violation(sig, msg, {"kind": "input", "module": "pvmc.props.c11", "what": "ability", "gen": gen,
                                         "combos": [list(map(list, c)) for c in job[1]], "sig": sig})
        chk.parts.append({"scenario": f"at{gen}/ability-bitmaps", "inits": len(jobs), "calls": nn,
                          "bitmaps": sum(len(j[1]) for j in jobs)})
        total += nn
        vjobs = [(gen, p) for p in ("ac-setpoint", "zones", "timers")]
        res = explorer.pool().map(values_job, vjobs, chunksize=1)
        for job, (n, bad, k) in zip(vjobs, res):
            total += n
            judged += k
            chk.parts.append({"scenario": f"at{gen}/{job[1]}", "calls": n})
            for sig, msg in bad:
                chk.violation(sig, msg, {"kind": "input", "module": "pvmc.props.c11", "what": "values", "gen": gen, "part": job[1], "sig": sig})
    chk.samples += [{"call": "set_mode/set_fan_speed/set_power for every argument under every ability bitmap"},
                    {"call": "ac.set_target_temperature(t), t = -5.00..50.00 step 0.05, under every mode-dependent limit pair"},
                    {"call": "set/clear each quick timer for every reported (on, off) pair"}]
    return chk.finish({"evaluations": total, "distinct_nontrivial": judged, "exhaustive": True,
                       "rule": "one evaluation = one public API call on a real initialised client; distinct_nontrivial = number of distinct "
                               "(configuration, entity, call, argument) labels, counted with a set, that were judged either for refusal "
                               "(ValueError and zero bytes) or for exactly one correctly shaped frame"})
