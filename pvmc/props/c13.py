"""C13 - reception is independent of TCP segmentation (DESIGN §6 C13)."""
from __future__ import annotations

import asyncio
import itertools

from .. import explorer, libview, runner
from ..ref import framing
from . import c06


def streams(gen):
    cp = dict(c06.corpus(gen))
    if gen == 4:
        empty = framing.at4_frame(0xB0, 0x80, 9, 0x2B, b"")              # empty payload (request form)
        return [("names+empty+ac-status", [cp["names"], empty, cp["ac-status"]]),
                ("version", [cp["version"]]),
                ("zone-status+timer", [cp["zone-status"], cp["timer-status"]])]
    zero = framing.at5_frame(0xB0, 0x80, 9, 0xC0, bytes([0x21, 0, 0, 0, 0, 0, 0, 0]))   # 0-record status
    return [("version+zero-records+ac-status", [cp["version"], zero, cp["ac-status"]]),
            ("zone-status", [cp["zone-status"]]),
            ("unknown-sub+error", [cp["unknown-sub"], cp["error"]])]


def damaged_streams(gen):
    """A frame with a wrong check value in the middle: whatever the segmentation, the frames before it are
    delivered, the connection is replaced, and nothing behind it on the old stream is delivered."""
    cp = dict(c06.corpus(gen))
    bad = bytearray(cp["zone-status"])
    bad[-1] ^= 0x40
    return [("damaged:ac-status+BAD(zone-status)+version", [cp["ac-status"], bytes(bad), cp["version"]], 1),
            ("damaged:BAD(zone-status)+timer-status+version", [bytes(bad), cp["timer-status"], cp["version"]], 0)]


def run_damaged(job):
    gen, name, frames, good, maxcuts, shard, nshards = job
    raw = b"".join(frames)
    base, nconn, rep = deliver(gen, raw, (), ())
    if len(base) != good or nconn != 2 or rep:
        return 1, (f"at{gen} {name}: unsegmented stream: {len(base)} messages delivered over {nconn} connection(s), expected the "
                   f"{good} before the damaged frame and one re-connection; loop reports {rep[:1]}")
    n = 1
    k = 0
    # three cuts only around the damaged frame (four bytes before it to eight after it)
    ref_frames, _r, _e = framing.split(gen, b"".join(f for f in frames[:good]))
    lo = sum(len(f) for f in frames[:good])
    hi = lo + len(frames[good])
    near = [c for c in range(1, len(raw)) if lo - 4 <= c <= hi + 8]
    for ncut in range(1, maxcuts + 1):
        for cuts in itertools.combinations(range(1, len(raw)) if ncut < 3 else near, ncut):
            k += 1
            if k % nshards != shard:
                continue
            for modes in itertools.product([True, False], repeat=ncut):
                got, nconn, rep = deliver(gen, raw, cuts, modes)
                n += 1
                if got != base or nconn != 2 or rep:
                    return n, (f"at{gen} {name}: cuts {cuts} (settle after segment: {modes}): delivered {len(got)} messages over "
                               f"{nconn} connection(s); the unsegmented run delivered {len(base)} over 2; loop reports {rep[:1]}")
    return n, None


GAPS = (1.0, 29.0, 61.0, 299.0)


def run_lifecycle_from_callback(gen):
    """The message subscriber itself closes and re-opens the socket while it is being told about a frame (an application
    that re-initialises on some report).  Frames the console sends on the new connection - whole, cut once anywhere, byte
    by byte - are delivered once each, in order, over that one new connection."""
    cp = dict(c06.corpus(gen))
    first = cp["version"]
    later = [cp["ac-status"], cp["zone-status"]]
    raw = b"".join(later)
    n = 0
    segmentations = [()] + [(c,) for c in range(1, len(raw))] + [tuple(range(1, len(raw)))]
    for cuts in segmentations:
        w = c06.RxWorld(gen)
        state = {"done": False}
        sock = w.sock

        async def lifecycle(hdr, msg, w=w, state=state, sock=sock):
            if not state["done"]:
                state["done"] = True
                await sock.close()
                await sock.open_socket()
                for _ in range(50):              # ... and it stays in the callback until the new connection is up
                    if sock.is_connected:
                        break
                    await asyncio.sleep(0)
        lifecycle.__qualname__ = "c13.lifecycle"
        sock.subscribe_on_message_received(lifecycle)
        w.net.live()[-1].peer_send(first)
        w.loop.settle()
        n += 1
        if len(w.net.conns) != 2 or not w.net.live():
            return n, f"at{gen}: after close() + open_socket() from inside a message callback: {len(w.net.conns)} connections, {len(w.net.live())} live"
        t = w.net.live()[-1]
        pos = 0
        for c in list(cuts) + [len(raw)]:
            t.peer_send(raw[pos:c])
            pos = c
            w.loop.settle()
        w.loop.run_until(w.loop.time() + 3.0)
        got = [h.message_id for h, m in w.got]
        want = [framing.split(gen, f)[0][0].typ for f in [first] + later]
        if got != want or len(w.net.conns) != 2 or w.loop_reports():
            return n, (f"at{gen}: socket closed and re-opened from inside the callback for the first frame, then {len(later)} frames on the "
                       f"new connection cut at {cuts if len(cuts) < 4 else 'every byte'}: delivered message types {got}, sent {want}; "
                       f"connections {len(w.net.conns)}; reports {w.loop_reports()[:1]}")
    return n, None


def _command(gen):
    from . import sockcommon
    return sockcommon.catalogue(gen)[0][0][1]


def deliver(gen, raw, cuts, modes):
    """Feed raw cut at ``cuts``; modes[i] True = run to quiescence after segment i, False = no turn."""
    w = c06.RxWorld(gen)
    t = w.net.live()[-1]
    pos = 0
    for i, c in enumerate(list(cuts) + [len(raw)]):
        t.peer_send(raw[pos:c])
        pos = c
        if i >= len(modes) or modes[i]:
            w.loop.settle()
        if i < len(modes) and isinstance(modes[i], tuple):
            # ("wait", seconds): the rest of the frame is a long time coming - every loop timer in between fires
            w.loop.run_until(w.loop.time() + modes[i][1])
        if i < len(modes) and modes[i] == "send":
            # other tasks of the client run between two segments: here one that transmits a command
            w.spawn(w.sock.send(_command(gen), w.policy))
            w.loop.settle()
    w.loop.settle()
    got = [(h.to_address, h.from_address, h.packet_id, h.message_id, h.message_length, repr(libview.view(gen, m))) for h, m in w.got]
    return got, len(w.net.conns), list(w.loop.exc_reports)


def run_stream(job):
    gen, name, frames, maxcuts, both_modes, shard, nshards = job
    raw = b"".join(frames)
    ref_frames, residue, err = framing.split(gen, raw)
    assert not err and not residue and len(ref_frames) == len(frames)
    base, nconn, _ = deliver(gen, raw, (), ())
    if len(base) != len(frames) or nconn != 1:
        return 1, f"at{gen} {name}: unsegmented stream delivered {len(base)} of {len(frames)} frames (connections {nconn})"
    for b, fr in zip(base, ref_frames):
        if b[:5] != (fr.to, fr.frm, fr.pid, fr.typ, len(fr.data)):
            return 1, f"at{gen} {name}: delivered header {b[:5]} differs from the reference parse"
    n = 1
    k = 0
    positions = range(1, len(raw))
    for ncut in range(1, maxcuts + 1):
        for cuts in itertools.combinations(positions, ncut):
            k += 1
            if k % nshards != shard:
                continue
            mode_sets = itertools.product([True, False, "send"], repeat=ncut) if both_modes else [(True,) * ncut, ("send",) * ncut]
            for modes in mode_sets:
                got, nconn, rep = deliver(gen, raw, cuts, modes)
                n += 1
                if got != base or nconn != 1 or rep:
                    return n, (f"at{gen} {name}: cuts {cuts} (settle after segment: {modes}): delivered {len(got)} messages "
                               f"over {nconn} connection(s), unsegmented run delivered {len(base)}; loop reports {rep[:1]}")
    # one cut at every position with a long silence before the rest arrives (1 s, 29 s, 61 s, 299 s: below the
    # heartbeat timeout of a bare socket there is no reason to drop or tear a frame that is slow in coming)
    for c in positions:
        k += 1
        if k % nshards != shard:
            continue
        for gap in GAPS:
            got, nconn, rep = deliver(gen, raw, (c,), (("wait", gap),))
            n += 1
            if got != base or nconn != 1 or rep:
                return n, (f"at{gen} {name}: cut at {c} with {gap} s of silence before the rest: delivered {len(got)} messages "
                           f"over {nconn} connection(s), unsegmented run delivered {len(base)}; loop reports {rep[:1]}")
    if shard == 0:
        for modes in ((True,) * (len(raw) - 1), (False,) * (len(raw) - 1)):
            got, nconn, rep = deliver(gen, raw, tuple(range(1, len(raw))), modes)
            n += 1
            if got != base or nconn != 1:
                return n, f"at{gen} {name}: byte-by-byte delivery differs from the unsegmented run"
    return n, None


def replay_input(rp):
    if "lifecycle" in rp:
        return run_lifecycle_from_callback(rp["lifecycle"])[1]
    return rp.get("message")


def run(tier, seed, part=None):
    chk = runner.Check("C13", tier, seed, "model_checking")
    chk.trusted_base = ["pvmc.ref.framing", "pvmc.vloop / pvmc.simnet (data_received per segment, as a selector callback)",
                        "pvmc.libview (to compare delivered messages between runs)"]
    chk.assumptions = ["streams of 1-3 frames per generation incl. an empty payload and a zero-record status",
                       "two streams per generation with a damaged frame (first or second position)", "between two segments: no loop turn, run to quiescence, or run to quiescence and let the client transmit a command"]
    nsh = 16
    jobs = []
    for gen in (4, 5):
        for i, (name, frames) in enumerate(streams(gen)):
            if tier == "quick":
                maxcuts, both = 2, True
            else:
                maxcuts, both = 3, (i == 0)
            for sh in range(nsh):
                jobs.append((gen, name, frames, maxcuts, both, sh, nsh))
    res = explorer.pool().map(run_stream, jobs, chunksize=1)
    total = 0
    for job, (n, msg) in zip(jobs, res):
        total += n
        if msg:
            chk.violation(f"at{job[0]}:{job[1]}", msg, {"kind": "input", "module": "pvmc.props.c13", "message": msg})
    for gen, (n, msg) in zip((4, 5), explorer.pool().map(run_lifecycle_from_callback, [4, 5], chunksize=1)):
        total += n
        chk.parts.append({"scenario": f"at{gen}/close+open-from-the-message-callback", "segmentations": n})
        if msg:
            chk.violation(f"at{gen}:lifecycle-from-callback", msg, {"kind": "input", "module": "pvmc.props.c13", "lifecycle": gen, "message": msg})
    djobs = [(gen, name, frames, good, 2 if tier == "quick" else 3, sh, nsh)
             for gen in (4, 5) for (name, frames, good) in damaged_streams(gen) for sh in range(nsh)]
    for job, (n, msg) in zip(djobs, explorer.pool().map(run_damaged, djobs, chunksize=1)):
        total += n
        if msg:
            chk.violation(f"at{job[0]}:{job[1]}", msg, {"kind": "input", "module": "pvmc.props.c13", "message": msg})
    for gen in (4, 5):
        for name, frames, good in damaged_streams(gen):
            chk.parts.append({"scenario": f"at{gen}/{name}", "bytes": sum(len(f) for f in frames), "frames": len(frames), "delivered": good})
    chk.counters["states"] = total
    chk.counters["transitions"] = total
    chk.counters["executions"] = total
    for gen in (4, 5):
        for name, frames in streams(gen):
            chk.parts.append({"scenario": f"at{gen}/{name}", "bytes": sum(len(f) for f in frames), "frames": len(frames)})
    chk.samples += [{"stream": "at5 version+zero-records+ac-status", "cuts": [3, 17], "settle_after_segment": [True, False]}]
    return chk.finish({"rule": "one execution per (stream, set of cut positions, per-cut turn mode); states = executions (each is a distinct segmentation)"})
