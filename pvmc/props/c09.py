"""C09 - initialisation completes against any answering console, else fails cleanly (DESIGN §6 C09)."""
from __future__ import annotations

import itertools

from .. import apiworld, console, explorer, runner
from ..ref import framing
from ..vloop import EPS

STEPS = ["req-version", "req-names", "req-ability", "req-ac-status", "req-timer-status", "req-zone-status"]
EXTRAS = ["ac-status", "zone-status", "timer-status", "dup-prev", "early-next", "unknown-type", "unknown-sub",
          "foreign-request", "foreign-answer"]


# ---------------------------------------------------------------------------------------- installations
def make_inst(gen, assign, n_ac, fmt="new", names=None, nonsense=False):
    """assign: tuple zone_index -> ac index (zones are numbered 0..len-1)."""
    inst = console.default_installation(gen, n_ac, tuple(0 for _ in range(n_ac)), fmt=fmt)
    zones = {}
    for z, a in enumerate(assign):
        zones[z] = (names[z] if names else f"Z{z}-{a}")
        inst["acs"][a]["zones"].append(z)
    inst["zones"] = zones
    for a in inst["acs"]:
        a["name"] = f"Unit {a['ac']}"
        zs = a["zones"]
        a["start"] = zs[0] if zs else 0
        a["count"] = len(zs)
    if nonsense == "single":
        inst["acs"][0]["start"], inst["acs"][0]["count"] = 7, 0
    elif nonsense == "all":
        # new-format consoles have been observed with meaningless start/count bytes: every AC claims all groups
        for a in inst["acs"]:
            a["start"], a["count"] = 0, len(assign)
    elif nonsense == "range":
        for a in inst["acs"]:
            a["start"], a["count"] = 13, 5          # points at groups that do not exist
    return inst


def contiguous(assign):
    return list(assign) == sorted(assign)


def installations(gen, tier):
    out = []
    max_ac, max_z = (3, 5) if tier == "quick" else (4, 6)
    for n in range(1, max_ac + 1):
        for z in range(0 if gen == 5 else 1, max_z + 1):
            for assign in itertools.product(range(n), repeat=z):
                if gen == 4:
                    out.append(("new", make_inst(4, assign, n, "new")))
                    if n > 1:
                        # the bitmap must win over stale start/count bytes
                        out.append(("new-stale-all", make_inst(4, assign, n, "new", nonsense="all")))
                        if z <= 3:
                            out.append(("new-stale-range", make_inst(4, assign, n, "new", nonsense="range")))
                    if contiguous(assign) and (n == 1 or all(k in assign for k in range(n)) or True):
                        out.append(("old", make_inst(4, assign, n, "old")))
                elif contiguous(assign):
                    out.append(("at5", make_inst(5, assign, n)))
    if gen == 4:
        out.append(("old-single-nonsense", make_inst(4, (0, 0, 0), 1, "old", nonsense="single")))
        out.append(("new-single-nonsense", make_inst(4, (0, 0, 0), 1, "new", nonsense="single")))
    # structured families up to 16 zones
    for z in (8, 12, 16):
        for n in (1, 2, 4):
            assign = tuple(min(n - 1, i * n // z) for i in range(z))
            if gen == 4:
                out.append(("new-16", make_inst(4, assign, n, "new")))
                out.append(("new-16-striped", make_inst(4, tuple(i % n for i in range(z)), n, "new")))
                out.append(("old-16", make_inst(4, assign, n, "old")))
            else:
                out.append(("at5-16", make_inst(5, assign, n)))
    return out


# ---------------------------------------------------------------------------------------- one execution
class Run(apiworld.ApiWorld):
    def __init__(self, gen, inst):
        super().__init__(gen, inst, auto=False, net_auto="accept")
        self.sent_answers = []     # (time, kind)

    def extra_frames(self, kind, step):
        c = self.console
        g = self.gen
        if kind == "ac-status":
            return [c.ac_status_frame()]
        if kind == "zone-status":
            return [c.zone_status_frame()] if self.inst["zones"] else []
        if kind == "timer-status":
            return [c.timer_status_frame()]
        if kind == "dup-prev":
            return [self.prev_answer] if self.prev_answer else []
        if kind == "early-next":
            nxt = {0: c.names_frame, 1: c.ability_frame, 2: c.ac_status_frame, 3: c.timer_status_frame,
                   4: c.zone_status_frame, 5: None}[step]
            if nxt is None or (step in (0, 4) and not self.inst["zones"]):
                return []
            return [nxt()]
        if kind == "unknown-type":
            return [framing.frame(g, 0xB0, 0x80, 7, 0x99, b"\x01\x02\x03")]
        if kind == "unknown-sub":
            if g == 4:
                return [framing.frame(4, 0xB0, 0x90, 7, 0x1F, b"\xff\x77\x01\x02")]
            return [framing.frame(5, 0xB0, 0x80, 7, 0xC0, bytes([0x77, 0, 0, 2, 0, 0, 0, 0, 9, 9])),
                    framing.frame(5, 0xB0, 0x90, 7, 0x1F, b"\xff\x77\x01\x02")]
        if kind == "foreign-request":
            # another client's requests, addressed to the console, seen on our connection
            typ = 0x2D if g == 4 else 0xC0
            data = b"" if g == 4 else bytes([0x23, 0, 0, 0, 0, 0, 0, 0])
            return [framing.frame(g, 0x80, 0xB1, 9, typ, data),
                    framing.frame(g, 0x90, 0xB1, 9, 0x1F, b"\xff\x30")]
        if kind == "foreign-answer":
            # an answer of the awaited kind, but addressed to another client and with other content
            other = console.SimConsole.__new__(console.SimConsole)
            other.__dict__.update(c.__dict__)
            oi = console.default_installation(g, 1, (1,))
            oi["zones"] = {0: "Foreign"}
            oi["acs"][0]["name"] = "ForeignAC"
            other.inst = oi
            other.state = console.default_state(oi)
            other.state["ac"][0]["mode"] = "dry"
            fn = [other.version_frame, other.names_frame, other.ability_frame, other.ac_status_frame,
                  other.timer_status_frame, other.zone_status_frame][step]
            raw = fn()
            fr = framing.split(g, raw)[0][0]
            return [framing.frame(g, 0xB1, fr.frm, fr.pid, fr.typ, fr.data)]
        raise ValueError(kind)

    def drive(self, extra=None, extra_step=None, silent_step=None, segment=False, two=None):
        """Answer each handshake request as it arrives; returns when init() finished."""
        L = self.loop
        self.prev_answer = None
        self.start_init()
        step = 0
        guard = 0
        while not self.init_result and guard < 10000:
            guard += 1
            if len(self.net.conns) > 40:
                break           # a re-connection storm (dozens of connections within one handshake): give up, it is judged below
            if L.has_ready():
                L.turn()
                continue
            if self.console.outbox:
                cid, data, kind = self.console.outbox[0]
                if kind in STEPS and STEPS.index(kind) == silent_step:
                    self.console.outbox.pop(0)
                    continue
                if kind in STEPS and STEPS.index(kind) == extra_step and extra:
                    for k in ([extra] if two is None else [extra, two]):
                        for f in self.extra_frames(k, STEPS.index(kind)):
                            self.console.send_raw(f)
                            L.settle()
                    extra = None
                self.console.outbox.pop(0)
                if segment:
                    for i in range(len(data)):
                        self.console.send_raw(data[i:i + 1], cid)
                        L.settle()
                else:
                    self.console.send_raw(data, cid)
                self.sent_answers.append((L.time(), kind))
                self.prev_answer = data
                continue
            nd = L.next_deadline()
            if nd is None:
                break
            L.advance_to(nd)
        L.settle()


def expected_model(inst):
    return sorted((a["ac"], a["name"], sorted((z, inst["zones"][z]) for z in a["zones"])) for a in inst["acs"])


def observed_model(at):
    return sorted((a.ac_id, a.name, sorted((z.zone_id, z.name) for z in a.zones)) for a in at.air_conditioners)


def judge_success(w, label):
    if not w.init_result:
        return f"{label}: init() never returned"
    st, val, t = w.init_result[0]
    if st != "returned":
        return f"{label}: init() raised {val}"
    if val is not True:
        return f"{label}: init() returned {val} at t={t} although every request was answered"
    last = w.sent_answers[-1][0] if w.sent_answers else None
    if last is not None and t != last:
        return f"{label}: init() returned at t={t}, last answer was sent at t={last}"
    kinds = [r[2] for r in w.console.requests if r[2].startswith("req-")][:6]
    if kinds != STEPS:
        return f"{label}: handshake requests {kinds} are not the fixed order"
    # one at a time: request k+1 only after answer k was sent
    reqs = [(r[0], r[2], i) for i, r in enumerate(w.console.requests) if r[2] in STEPS][:6]
    for k in range(1, 6):
        ans = [t_ for (t_, kd) in w.sent_answers if kd == STEPS[k - 1]]
        if not ans or reqs[k][0] < ans[0]:
            return f"{label}: request {STEPS[k]} issued before the answer to {STEPS[k-1]}"
    if not w.at.initialised:
        return f"{label}: initialised is False after init() returned True"
    exp, got = expected_model(w.inst), observed_model(w.at)
    if exp != got:
        return f"{label}: model {got} != installation {exp}"
    if w.loop.exc_reports:
        return f"{label}: loop exception handler: {w.loop.exc_reports[:1]}"
    return None


def run_case(case):
    gen, inst, kw, expect = case
    w = Run(gen, inst)
    if expect[0] == "connect":
        return run_connect_case(w, expect)
    if expect[0] == "slow-connect":
        return run_slow_connect_case(w, expect)
    w.drive(**kw)
    label = f"at{gen} {kw}"
    if expect[0] == "ok":
        return judge_success(w, label)
    # silence at step k: False at exactly t0 + 5
    if not w.init_result:
        return f"{label}: init() never returned (hang)"
    st, val, t = w.init_result[0]
    if st != "returned":
        return f"{label}: init() raised {val}"
    if val is not False or t != 5.0:
        return f"{label}: expected False at t=5.0, got {val} at t={t}"
    if w.at.initialised:
        return f"{label}: initialised True after a failed init()"
    return None


def run_connect_case(w, expect):
    """expect = ('connect', latency or None, refusals)"""
    _, latency, refusals = expect[:3]
    how = expect[3] if len(expect) > 3 else "refused"
    import socket as _socket
    exc = {"refused": None, "unreachable": OSError(113, "sim: no route to host"),
           "netdown": OSError(101, "sim: network is unreachable"),
           "dns": _socket.gaierror(-3, "sim: temporary failure in name resolution"),
           "timeout": TimeoutError(110, "sim: connection timed out")}[how]
    L = w.loop
    w.net.auto = None
    w.console.auto = True
    w.start_init()
    L.settle()
    n_ref = 0
    guard = 0
    while not w.init_result and guard < 1000:
        guard += 1
        if L.has_ready():
            L.turn()
            continue
        if w.net.pending:
            if n_ref < refusals:
                n_ref += 1
                w.net.resolve(False, exc=exc)
                continue
            if latency:
                target = latency
                nd = L.next_deadline()
                if nd is not None and nd < target:
                    L.advance_to(nd)
                    continue
                L.advance_to(target)
                latency = None
            w.net.resolve(True)
            continue
        nd = L.next_deadline()
        if nd is None:
            break
        L.advance_to(nd)
    L.settle()
    label = f"at{w.gen} connect latency={expect[1]} failed attempts={refusals} ({how})"
    if not w.init_result:
        return f"{label}: init() never returned"
    st, val, t = w.init_result[0]
    if st != "returned":
        return f"{label}: raised {val}"
    t_conn = max(expect[1] or 0.0, 2.0 * refusals)
    if t_conn < 5.0:
        if val is not True or t != t_conn:
            return f"{label}: expected True at t={t_conn}, got {val} at t={t}"
        if observed_model(w.at) != expected_model(w.inst):
            return f"{label}: wrong model"
    elif t_conn > 5.0:
        if val is not False or t != 5.0:
            return f"{label}: expected False at t=5.0, got {val} at t={t}"
    return None


def run_slow_connect_case(w, expect):
    """expect = ('slow-connect', seconds): EVERY connection attempt takes that long to be accepted (a slow network,
    not a console that comes up late).  Below five seconds the first attempt simply succeeds at that time."""
    lat = expect[1]
    L = w.loop
    w.net.auto = None
    w.console.auto = True
    w.start_init()
    L.settle()
    started = {}
    guard = 0
    while not w.init_result and guard < 2000:
        guard += 1
        if L.has_ready():
            L.turn()
            continue
        for (fut, _f) in w.net.pending:
            started.setdefault(id(fut), L.time())
        due = [started[id(fut)] + lat for (fut, _f) in w.net.pending]
        nd = L.next_deadline()
        if due and (nd is None or min(due) <= nd):
            L.advance_to(max(min(due), L.time()))
            idx = due.index(min(due))
            w.net.resolve(True, idx)
            continue
        if nd is None:
            break
        L.advance_to(nd)
    L.settle()
    label = f"at{w.gen} every connection attempt takes {lat} s"
    if not w.init_result:
        return f"{label}: init() never returned"
    st, val, t = w.init_result[0]
    if st != "returned":
        return f"{label}: raised {val}"
    if lat < 5.0:
        if val is not True or t != lat:
            return f"{label}: expected True at t={lat}, got {val} at t={t} ({len(w.net.conns)} connections, attempts at " \
                   f"{[e[0] for e in w.net.log if e[1] == 'attempt']})"
        if observed_model(w.at) != expected_model(w.inst):
            return f"{label}: wrong model"
    elif lat > 5.0 and (val is not False or t != 5.0):
        return f"{label}: expected False at t=5.0, got {val} at t={t}"
    return None


def cases(gen, tier):
    insts = installations(gen, tier)
    out = []
    for name, inst in insts:
        out.append((gen, inst, {}, ("ok", name)))
        out.append((gen, inst, {"segment": True}, ("ok", name)))
    # extra frames: at each step, each kind; on representative installations
    reps = [i for n, i in insts if len(i["acs"]) == 2 and len(i["zones"]) == 3][:4] + \
           [i for n, i in insts if len(i["acs"]) == 1][:2] + [i for n, i in insts if len(i["acs"]) == 3][:2]
    if gen == 5:
        reps += [i for n, i in insts if not i["zones"]][:2]
    pair_reps = reps[:2] if tier == "quick" else reps
    wide = [] if tier == "quick" else [i for n, i in insts if len(i["acs"]) <= 3 and len(i["zones"]) <= 4]
    for inst in reps:
        for step in range(6):
            for kind in EXTRAS:
                out.append((gen, inst, {"extra": kind, "extra_step": step}, ("ok", kind)))
                if any(inst is p for p in pair_reps):
                    for k2 in EXTRAS:
                        out.append((gen, inst, {"extra": kind, "extra_step": step, "two": k2}, ("ok", kind + "+" + k2)))
            out.append((gen, inst, {"silent_step": step}, ("silent", step)))
    for inst in wide:
        for step in range(6):
            for kind in EXTRAS:
                out.append((gen, inst, {"extra": kind, "extra_step": step, "segment": True}, ("ok", kind)))
    inst = reps[0]
    for lat in (None, 1.0, 5.0 - EPS, 5.0 + EPS):
        out.append((gen, inst, {}, ("connect", lat, 0)))
    for ref in (1, 2, 3):
        for how in ("refused", "unreachable", "netdown", "dns", "timeout"):
            out.append((gen, inst, {}, ("connect", None, ref, how)))
    for lat in (0.5, 2.0 - EPS, 2.0, 2.0 + EPS, 3.0, 4.0 + EPS, 5.0 - EPS, 5.0 + EPS, 7.0):
        out.append((gen, inst, {}, ("slow-connect", lat)))
    return out


def replay_input(rp):
    import pickle, base64
    case = pickle.loads(base64.b64decode(rp["case"]))
    return run_case(case)


def run(tier, seed, part=None):
    import base64, pickle
    chk = runner.Check("C09", tier, seed, "model_checking")
    chk.trusted_base = ["pvmc.console.SimConsole built on pvmc.ref (vendor documents; AT5 zero-zone echo from docs/design.md)",
                        "pvmc.vloop.VLoop", "pvmc.simnet"]
    chk.assumptions = ["AT4 installations have >= 1 group: an empty AT4 group-names answer is byte-identical to the request "
                       "and no recording of such a console exists (DESIGN §10)",
                       "installations are self-consistent (every zone an AC lists has a name)",
                       "exact 5.0 s ties are not judged"]
    n = 0
    outcomes = set()
    for gen in (4, 5):
        cs = cases(gen, tier)
        results = explorer.pool().map(run_case, cs, chunksize=16) if len(cs) > 64 else [run_case(c) for c in cs]
        for case, msg in zip(cs, results):
            n += 1
            outcomes.add((case[3][0], bool(msg)))
            if msg:
                kw, expect = case[2], case[3]
                sig = f"at{gen}:{expect[0]}:" + (",".join(f"{k}={v}" for k, v in sorted(kw.items())) or "plain") + \
                      (f":{expect[1]}" if expect[0] != "ok" else "")
                chk.violation(sig, msg, {"kind": "input", "module": "pvmc.props.c09",
                                         "case": base64.b64encode(pickle.dumps(case)).decode()})
        chk.parts.append({"scenario": f"at{gen}", "executions": len(cs),
                          "installations": len(installations(gen, tier))})
        if len(chk.samples) < 4:
            chk.samples.append({"gen": gen, "installation": expected_model(cs[len(cs) // 3][1]), "script": cs[len(cs) // 3][2]})
    chk.counters["executions"] = n
    chk.counters["states"] = n
    chk.counters["transitions"] = n * 7
    chk.outcomes.update({repr(o): 1 for o in outcomes})
    return chk.finish({"rule": "one execution of the real init() per (installation, console script); states = executions"})
