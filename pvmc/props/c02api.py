"""C02, API part: retry policy chosen per public command (filled in once SimConsole exists)."""


def run_part(chk, tier):
    chk.notes.append("API part not built yet")
