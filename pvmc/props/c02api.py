"""C02, API part: the retry policy chosen per command (DESIGN §6 C02, second part).

Every public command of both generations, and the internal senders with the accumulate-on-repeat
arguments the public enums do not expose, under fault scripts.  Attempts are counted on the
simulated wire through the packet id of the command's header chunk."""
from __future__ import annotations

import datetime

from .. import console, explorer
from ..ref.at4 import KEEP
from ..vloop import EPS
from . import cmdcommon as cc

SCRIPTS = ["fail-1", "fail-2", "fail-3", "down-0.5", "down-1+eps", "down-31"]


def commands(gen):
    """[(label, fn(world) -> coroutine function, internal?)]"""
    import pyairtouch as A
    out = []

    def ac(w, i=0):
        return sorted(w.at.air_conditioners, key=lambda a: a.ac_id)[i]

    def zone(w, i=0):
        return sorted((z for a in w.at.air_conditioners for z in a.zones), key=lambda z: z.zone_id)[i]
    for pc in A.AcPowerControl:
        out.append((f"ac.set_power({pc.name})", lambda w, pc=pc: (lambda: ac(w).set_power(pc)), False))
    for m in A.AcMode:
        for on in (False, True):
            out.append((f"ac.set_mode({m.name}, power_on={on})", lambda w, m=m, on=on: (lambda: ac(w).set_mode(m, power_on=on)), False))
    for f in A.AcFanSpeed:
        out.append((f"ac.set_fan_speed({f.name})", lambda w, f=f: (lambda: ac(w).set_fan_speed(f)), False))
    out.append(("ac.set_target_temperature(23)", lambda w: (lambda: ac(w).set_target_temperature(23)), False))
    for tt in A.AcTimerType:
        out.append((f"ac.set_quick_timer({tt.name}, 07:30)", lambda w, tt=tt: (lambda: ac(w).set_quick_timer(tt, datetime.time(7, 30))), False))
        out.append((f"ac.set_quick_timer({tt.name}, 1h)", lambda w, tt=tt: (lambda: ac(w).set_quick_timer(tt, datetime.timedelta(hours=1))), False))
        out.append((f"ac.clear_quick_timer({tt.name})", lambda w, tt=tt: (lambda: ac(w).clear_quick_timer(tt)), False))
    for ps in A.ZonePowerState:
        out.append((f"zone.set_power({ps.name})", lambda w, ps=ps: (lambda: zone(w).set_power(ps)), False))
    out.append(("zone.set_target_temperature(21)", lambda w: (lambda: zone(w).set_target_temperature(21)), False))
    out.append(("zone.set_damper_percentage(40)", lambda w: (lambda: zone(w).set_damper_percentage(40)), False))
    out.append(("check_for_updates()", lambda w: w.at.check_for_updates, False))
    # anchored internal senders with accumulate-on-repeat arguments
    if gen == 4:
        import pyairtouch.at4.comms.x2A_group_ctrl as gc
        import pyairtouch.at4.comms.x2C_ac_ctrl as acc
        out += [
            ("ac._send_ac_control_message(set_point +1)", lambda w: (lambda: ac(w)._send_ac_control_message(set_point_control=acc.AcIncreaseDecrease.INCREASE)), True),
            ("ac._send_ac_control_message(set_point -1)", lambda w: (lambda: ac(w)._send_ac_control_message(set_point_control=acc.AcIncreaseDecrease.DECREASE)), True),
            ("zone._send_group_control_message(method CHANGE)", lambda w: (lambda: zone(w)._send_group_control_message(control_method=gc.GroupControlMethod.CHANGE)), True),
            ("zone._send_group_control_message(setting +1)", lambda w: (lambda: zone(w)._send_group_control_message(setting=gc.GroupIncreaseDecrease.INCREASE)), True),
            ("zone._send_group_control_message(setting -1)", lambda w: (lambda: zone(w)._send_group_control_message(setting=gc.GroupIncreaseDecrease.DECREASE)), True),
            ("zone._send_group_control_message(power next state)", lambda w: (lambda: zone(w)._send_group_control_message(power=gc.GroupPowerControl.TOGGLE)), True),
        ]
    else:
        import pyairtouch.at5.comms.xC020_zone_ctrl as zc
        out += [
            ("zone._send_zone_control_message(power toggle)", lambda w: (lambda: zone(w)._send_zone_control_message(zone_power=zc.ZonePowerControl.TOGGLE)), True),
            ("zone._send_zone_control_message(setting +1)", lambda w: (lambda: zone(w)._send_zone_control_message(zone_setting=zc.ZoneIncreaseDecrease.INCREASE)), True),
            ("zone._send_zone_control_message(setting -1)", lambda w: (lambda: zone(w)._send_zone_control_message(zone_setting=zc.ZoneIncreaseDecrease.DECREASE)), True),
        ]
    return out


def classify(gen, kind, r):
    """From the reference reading of the frame: does repeating this command accumulate?"""
    if kind == "ac-control":
        return r["power"] == "toggle" or r["setpoint_ctl"] in ("inc", "dec")
    if kind == "zone-control":
        return r["power"] in ("toggle", "next") or r["setting"] in ("inc", "dec") or r["method"] == "change"
    return False


def header_chunks(w, i0):
    hl = 8 if w.gen == 4 else 20
    off = 4 if w.gen == 4 else 16
    out = []
    for e in w.net.log[i0:]:
        if e[1] in ("write", "write_fail", "write_after_loss") and len(e[3]) == hl and e[3][:2] == b"\x55\x55":
            out.append((e[0], e[2], e[1], e[3][off]))
    return out


def world(gen):
    inst = console.default_installation(gen, 1, (2,))
    st = console.default_state(inst)
    return cc.initialised(gen, inst, st)


def run_command(job):
    gen, idx = job
    label, mk, internal = commands(gen)[idx]
    bad = []
    n = 0
    # dry run without faults: what does the frame mean?
    w = world(gen)
    rec, frames = cc.issue(w, mk(w))
    if rec["status"] != "returned":
        return n, bad            # not supported on this generation (ValueError): nothing to retry
    cmds = [f for f in frames if f[2] != "req-error"]
    if len(cmds) != 1:
        return n, [(f"at{gen}:api:{label}:dry-run", f"{label}: {len(cmds)} frames without any fault")]
    kind, reading = cc.read_command(gen, cmds[0][3])
    accumulate = classify(gen, kind, reading)
    is_request = kind in ("version-request", "status-request")
    for script in SCRIPTS:
        n += 1
        w = world(gen)
        L = w.loop
        t0 = L.time()
        i0 = len(w.net.log)
        fails_left = [0]
        if script.startswith("fail"):
            nf = int(script.split("-")[1])
            fails_left[0] = nf - 1
            w.net.live()[-1].fail_after = 0
            orig = w.net.on_open

            def arm(t, orig=orig):
                orig(t)
                if fails_left[0] > 0:
                    fails_left[0] -= 1
                    t.fail_after = 0
            w.net.on_open = arm
            rec = w.call(mk(w), label)
            L.run_until(t0 + 40.0)
        else:
            d = {"down-0.5": 0.5, "down-1+eps": 1.0 + EPS, "down-31": 31.0}[script]
            w.net.auto = None
            w.net.live()[-1].peer_eof()
            L.settle()
            i0 = len(w.net.log)
            t0 = L.time()
            rec = w.call(mk(w), label)
            L.settle()
            L.run_until(t0 + d)
            w.net.auto = "accept"
            w.net.resolve_all(True)
            L.run_until(t0 + 40.0)
        chunks = header_chunks(w, i0)
        if not chunks:
            wire = []
            pid0 = None
        else:
            pid0 = chunks[0][3]
            wire = [c for c in chunks if c[3] == pid0 and c[2] in ("write", "write_fail")]
        tag = f"at{gen} {label} under {script}"
        limit = 1 if accumulate else 3
        if script.startswith("down"):
            # while the link is down the first header chunk after submit belongs to whatever is sent first on
            # the new connection; identify the command by its payload instead
            sent = [r for r in w.console.requests if r[3] is not None and r[0] >= t0 and r[3].typ == cmds[0][3].typ and r[3].data == cmds[0][3].data]
            nwire = len(sent)
            times = [r[0] for r in sent]
            life = 1.0 if False else 30.0
            d = {"down-0.5": 0.5, "down-1+eps": 1.0 + EPS, "down-31": 31.0}[script]
            if nwire > limit:
                bad.append((f"at{gen}:api:too-many:{label}", f"{tag}: transmitted {nwire} times"))
            if any(t >= t0 + 30.0 for t in times):
                bad.append((f"at{gen}:api:after-expiry:{label}", f"{tag}: transmitted at {times} (submitted at {t0})"))
            if d < 30.0 and nwire == 0 and not is_request and rec["status"] == "returned":
                bad.append((f"at{gen}:api:lost:{label}", f"{tag}: never transmitted although the link came back after {d}s"))
            continue
        if len(wire) > limit:
            bad.append((f"at{gen}:api:too-many:{label}",
                        f"{tag}: reference reading {reading} {'accumulates on repetition' if accumulate else ''}; "
                        f"put on the wire {len(wire)} times: {[(c[0], c[1], c[2]) for c in wire]}"))
        if any(c[0] >= t0 + 30.0 for c in wire):
            bad.append((f"at{gen}:api:after-expiry:{label}", f"{tag}: attempt at or after expiry: {wire}"))
        nf = int(script.split("-")[1])
        if not accumulate and not is_request and nf <= 2:
            # a transient failure must not lose the command: it is re-sent first on the next connection
            ok = [c for c in wire if c[2] == "write"]
            if not ok:
                bad.append((f"at{gen}:api:lost:{label}", f"{tag}: idempotent command never made it after {nf} failed write(s)"))
            else:
                first_on_conn = [c for c in chunks if c[1] == ok[0][1]][0]
                if first_on_conn[3] != pid0:
                    bad.append((f"at{gen}:api:retry-not-first:{label}", f"{tag}: first frame on connection {ok[0][1]} is not the retried command"))
    return n, bad


def run_requests(gen):
    """Handshake / heartbeat / refresh requests are discarded unless a connection exists within one second."""
    bad = []
    n = 0
    for d in (0.5, 1.0 - EPS, 1.0 + EPS, 5.0):
        # refresh requests: issued on the connected notification -> connection exists by construction.
        # heartbeat request submitted while the link is (unknown to the client) dead: first write fails
        w = world(gen)
        L = w.loop
        n += 1
        L.run_until(299.0)
        w.net.auto = None
        t = w.net.live()[-1]
        t.fail_after = 0                       # half-open link: the heartbeat write at t=300 fails
        L.run_until(300.0 + d)
        w.net.auto = "accept"
        w.net.resolve_all(True)
        L.run_until(340.0)
        vers = [r[0] for r in w.console.requests if r[2] == "req-version" and r[0] >= 299.0]
        late = [tm for tm in vers if tm >= 301.0 and abs((tm % 300.0)) > 1e-9]
        if late:
            bad.append((f"at{gen}:api:request-after-1s", f"at{gen}: heartbeat request submitted at t=300 on a dead link was transmitted at {late} "
                        f"(link back after {d}s)"))
        if d < 1.0 and False:
            pass
    if gen == 4:
        # the AirTouch 4 group status poll is a refresh request too: submitted by the client's own 300 s timer on a link
        # that is (unknown to it) dead, it is not carried over to a connection that comes more than a second later -
        # the re-connection's own refresh asks once, and that is all
        for d in (0.5, 1.0 + EPS, 5.0):
            w = world(gen)
            L = w.loop
            n += 1
            L.run_until(299.0)
            w.net.auto = None
            w.net.live()[-1].fail_after = 0
            L.run_until(300.0 + d)
            w.net.auto = "accept"
            w.net.resolve_all(True)
            L.run_until(300.0 + d + 10.0)
            polls = [r[0] for r in w.console.requests if r[2] == "req-zone-status" and r[0] >= 299.0]
            if len(polls) != 1 and d > 1.0:
                bad.append((f"at{gen}:api:poll-request-carried-over", f"at{gen}: group status poll submitted at t=300 on a dead link, link back "
                            f"after {d}s: group status requests seen at {polls} (expected one, the refresh of the re-connection)"))
    return n, bad


def run_fault_history(gen):
    """One client, six idempotent commands one after the other, each meeting exactly one write failure: every one
    of them is re-sent.  (The retry budget belongs to the message, not to the process.)"""
    bad = []
    w = world(gen)
    L = w.loop
    z = sorted((z for a in w.at.air_conditioners for z in a.zones), key=lambda z: z.zone_id)[0]
    n = 0
    for i in range(6):
        n += 1
        w.net.live()[-1].fail_after = 0
        n0 = len(w.console.requests)
        pct = 10 + 5 * i
        rec = w.call(lambda pct=pct: z.set_damper_percentage(pct), f"damper {pct}")
        L.run_until(L.time() + 5.0)
        got = []
        for r in w.console.requests[n0:]:
            if r[2].startswith("req-") or r[3] is None:
                continue
            kind, reading = cc.read_command(gen, r[3])
            if kind == "zone-control" and reading["setting"] == "percent":
                got.append(reading["value"])
        if rec["status"] != "returned" or got != [pct]:
            bad.append((f"at{gen}:api:fault-history", f"at{gen}: command #{i + 1} of a session (set_damper_percentage({pct})) met one write "
                        f"failure; call {rec['status']}, console received damper values {got} afterwards"))
            break
    return n, bad


def job(args):
    kind, gen, idx = args
    if kind == "cmd":
        return run_command((gen, idx))
    if kind == "hist":
        return run_fault_history(gen)
    return run_requests(gen)


def run_part(chk, tier):
    jobs = []
    for gen in (4, 5):
        for i in range(len(commands(gen))):
            jobs.append(("cmd", gen, i))
        jobs.append(("req", gen, 0))
        jobs.append(("hist", gen, 0))
    res = explorer.pool().map(job, jobs, chunksize=2)
    total = 0
    for j, (n, bad) in zip(jobs, res):
        total += n
        for sig, msg in bad:
            chk.violation(sig, msg, {"kind": "input", "module": "pvmc.props.c02api", "job": list(j)})
    chk.counters["executions"] += total
    chk.counters["states"] += total
    chk.counters["transitions"] += total
    chk.cov["api_part"] = {"commands_at4": len(commands(4)), "commands_at5": len(commands(5)), "fault_scripts": SCRIPTS,
                           "executions": total}
    chk.samples.append({"api_command": "at4 zone._send_group_control_message(power next state)", "script": "fail-2"})


def replay_input(rp):
    n, bad = job(tuple(rp["job"]))
    return bad[0][1] if bad else None
