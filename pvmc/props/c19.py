"""C19 - the unified API behaves the same over AirTouch 4 and AirTouch 5 (DESIGN §6 C19)."""
from __future__ import annotations

import copy
import itertools

from .. import apiworld, console, explorer, pubmodel, runner
from ..ref.at4 import ABSENT, KEEP
from . import cmdcommon as cc

COMMON_MODES = ["auto", "heat", "dry", "fan", "cool"]
COMMON_FANS = ["auto", "quiet", "low", "medium", "high", "powerful", "turbo"]
WHITELIST_AC = {"target_temperature_resolution"}          # documented differences (statement of C19)
WHITELIST_ZONE = {"target_temperature_resolution"}


def abstract_installation(variant=0):
    """One installation expressible in both protocols: contiguous zones, common abilities, one limit pair."""
    acs = [{"ac": 0, "name": "Up", "zones": [0, 1], "modes": {"auto", "heat", "cool", "dry"}, "fans": {"auto", "low", "high"}, "min": 17, "max": 30},
           {"ac": 1, "name": "Down", "zones": [2], "modes": set(COMMON_MODES), "fans": set(COMMON_FANS), "min": 16, "max": 31}]
    if variant == 1:
        acs = acs[:1]
        acs[0]["zones"] = [0, 1, 2]
    return {"acs": acs, "zones": {0: "Living", 1: "Kitchen", 2: "Bed"}, "update": False, "versions": ["1.0.3"]}


def concrete(gen, ainst):
    inst = console.default_installation(gen, len(ainst["acs"]), tuple(len(a["zones"]) for a in ainst["acs"]))
    for a, src in zip(inst["acs"], ainst["acs"]):
        a.update({"name": src["name"], "modes": set(src["modes"]), "fans": set(src["fans"]), "zones": list(src["zones"]),
                  "start": src["zones"][0] if src["zones"] else 0, "count": len(src["zones"])})
        if gen == 4:
            a.update({"min": src["min"], "max": src["max"]})
        else:
            a.update({"min_cool": src["min"], "max_cool": src["max"], "min_heat": src["min"], "max_heat": src["max"]})
    inst["zones"] = dict(ainst["zones"])
    inst["update"], inst["versions"] = ainst["update"], list(ainst["versions"])
    return inst


def sync_state(gen, st, astate):
    """Write the abstract state into a console state dict of generation ``gen``."""
    for a, s in astate["ac"].items():
        d = st["ac"][a]
        d.update({k: s[k] for k in ("power", "mode", "fan", "spill", "timer", "error", "temperature")})
        d["setpoint"] = s["setpoint"] if gen == 4 else float(s["setpoint"])
    for z, s in astate["zone"].items():
        d = st["zone"][z]
        d.update({k: s[k] for k in ("power", "method", "percent", "sensor", "spill", "battery_low", "temperature")})
        d["turbo_support"] = True
        if s["sensor"]:
            d["setpoint"] = s["setpoint"] if gen == 4 else float(s["setpoint"])
        else:
            d["setpoint"] = 0 if gen == 4 else ABSENT
            d["temperature"] = ABSENT
    for a, t in astate["timer"].items():
        st["timer"][a] = copy.deepcopy(t)
        st["timer"][a]["ac"] = a
    st["error"] = dict(astate["error"])


def abstract_state(ainst):
    return {"ac": {a["ac"]: {"power": "on", "mode": "cool", "fan": "low", "setpoint": 24, "temperature": 25.5, "spill": False,
                             "timer": False, "error": 0} for a in ainst["acs"]},
            "zone": {z: {"power": "on", "method": "temperature", "percent": 100, "setpoint": 22, "sensor": z != 1, "temperature": 23.4,
                         "spill": False, "battery_low": False} for z in ainst["zones"]},
            "timer": {a["ac"]: {"on": {"disabled": True, "hour": 0, "minute": 0}, "off": {"disabled": True, "hour": 0, "minute": 0}} for a in ainst["acs"]},
            "error": {a["ac"]: None for a in ainst["acs"]}}


class Pair:
    def __init__(self, variant=0):
        self.ainst = abstract_installation(0 if variant == 2 else variant)
        self.astate = abstract_state(self.ainst)
        if variant == 2:
            # the installation is already in trouble when the clients connect: the last AC reports an error (with text)
            last = max(self.astate["ac"])
            self.astate["ac"][last].update({"error": 5, "power": "off"})
            self.astate["error"][last] = "ER: 05"

        self.w = {}
        for gen in (4, 5):
            inst = concrete(gen, self.ainst)
            st = console.default_state(inst)
            sync_state(gen, st, self.astate)
            self.w[gen] = cc.initialised(gen, inst, st)

    def push_status(self, what):
        """Send the current abstract state as status frames of kind ``what`` to both clients."""
        for gen, w in self.w.items():
            sync_state(gen, w.console.state, self.astate)
            w.inst["update"], w.inst["versions"] = self.ainst["update"], list(self.ainst["versions"])
            c = w.console
            fr = {"ac": c.ac_status_frame, "zone": c.zone_status_frame, "timer": c.timer_status_frame, "version": c.version_frame}[what]()
            c.send_raw(fr)
            w.loop.settle()

    def views(self):
        return {gen: pubmodel.observed_view(w.at) for gen, w in self.w.items()}

    def compare_views(self, label):
        v = self.views()
        a, b = v[4], v[5]
        if sorted(a["acs"]) != sorted(b["acs"]) or sorted(a["zones"]) != sorted(b["zones"]):
            return f"{label}: entities differ: AT4 {sorted(a['acs'])}/{sorted(a['zones'])}, AT5 {sorted(b['acs'])}/{sorted(b['zones'])}"
        for k in a["acs"]:
            for attr, va in a["acs"][k].items():
                if attr in WHITELIST_AC:
                    continue
                vb = b["acs"][k][attr]
                if not _same(va, vb):
                    return f"{label}: ac {k}.{attr}: AirTouch 4 client says {va!r}, AirTouch 5 client says {vb!r}"
        for k in a["zones"]:
            for attr, va in a["zones"][k].items():
                if attr in WHITELIST_ZONE:
                    continue
                vb = b["zones"][k][attr]
                if not _same(va, vb):
                    return f"{label}: zone {k}.{attr}: AirTouch 4 client says {va!r}, AirTouch 5 client says {vb!r}"
        for attr in ("update_available", "console_versions"):
            if a[attr] != b[attr]:
                return f"{label}: {attr}: {a[attr]!r} vs {b[attr]!r}"
        return None

    def command(self, label, fn):
        """fn(at, acs, zones) -> coroutine function.  Same accept/reject, same normalised meaning."""
        res = {}
        for gen, w in self.w.items():
            acs = {a.ac_id: a for a in w.at.air_conditioners}
            zones = {z.zone_id: z for a in w.at.air_conditioners for z in a.zones}
            rec, frames = cc.issue(w, fn(w.at, acs, zones))
            cmds = [f for f in frames if f[2] != "req-error" and not (f[2].startswith("req-") and f[2] != "req-version")]
            meaning = None
            if rec["status"] == "returned":
                if len(cmds) != 1:
                    return f"{label}: AirTouch {gen} client sent {len(cmds)} frames"
                kind, reading = cc.read_command(gen, cmds[0][3])
                meaning = normalise(gen, kind, reading)
            res[gen] = (rec["status"], meaning)
        if res[4][0] != res[5][0]:
            return f"{label}: AirTouch 4 client: {res[4][0]}, AirTouch 5 client: {res[5][0]}"
        if res[4][1] != res[5][1]:
            return f"{label}: the accepted request means {res[4][1]} on AirTouch 4 but {res[5][1]} on AirTouch 5"
        # the consoles applied the command and reported the new status: the models must still agree
        return None


def _same(a, b):
    if isinstance(a, (int, float)) and isinstance(b, (int, float)) and not isinstance(a, bool):
        return abs(a - b) < 1e-9
    return a == b


def normalise(gen, kind, r):
    if kind == "ac-control":
        return ("ac", r["ac"], r["power"], r["mode"], r["fan"], r["setpoint_ctl"], None if r["setpoint"] is None else float(r["setpoint"]))
    if kind == "zone-control":
        z = r["group"] if gen == 4 else r["zone"]
        method = r["method"]
        implied = {"percent": "percent", "setpoint": "temperature"}.get(r["setting"])
        if method == implied:
            method = KEEP          # §4.3: the implied method or keep are the same request
        return ("zone", z, r["power"], r["setting"], None if r["value"] is None else float(r["value"]), method)
    if kind == "timer-control":
        recs = r if gen == 5 else [s for s in r if s["on"] != {"disabled": False, "hour": 0, "minute": 0} or s["off"] != {"disabled": False, "hour": 0, "minute": 0}]
        return ("timer", tuple((x["ac"], x["on"]["disabled"], x["on"]["hour"] if not x["on"]["disabled"] else 0,
                                x["on"]["minute"] if not x["on"]["disabled"] else 0, x["off"]["disabled"],
                                x["off"]["hour"] if not x["off"]["disabled"] else 0, x["off"]["minute"] if not x["off"]["disabled"] else 0) for x in recs))
    if kind == "quick-timer":
        return ("quick-timer", r["ac"], r["type"], r["hours"], r["minutes"])
    return (kind,)


# -------------------------------------------------------------------------------------- events
def events():
    import datetime
    import pyairtouch as A

    def st_ac0(p, k):
        s = p.astate["ac"][0]
        s.update({"mode": "heat" if s["mode"] != "heat" else "auto_cool", "fan": "high", "setpoint": 20 + k, "spill": k % 2 == 1})
        p.push_status("ac")

    def st_ac1(p, k):
        s = p.astate["ac"][max(p.astate["ac"])]
        s.update({"power": "off" if s["power"] == "on" else "on", "mode": "auto_heat", "temperature": 19.5 + k, "error": k % 2})
        p.astate["error"][max(p.astate["ac"])] = "ER: 12" if k % 2 else None
        p.push_status("ac")

    def st_ac0_error(p, k):
        # the status changes, the error code stays the same
        s = p.astate["ac"][0]
        s.update({"error": 7, "fan": "high" if s["fan"] != "high" else "low"})
        p.astate["error"][0] = "ER: 07"
        p.push_status("ac")

    def lose_error_reply(p, k):
        # both consoles drop their next answer to an error-information request (a lost frame)
        for w in p.w.values():
            def hook(kind, fr, answers, w=w):
                if kind == "req-error":
                    w.console.answer_hook = None
                    return []
                return answers
            w.console.answer_hook = hook

    def st_zone0(p, k):
        p.astate["zone"][0].update({"percent": (35 + 10 * k) % 100, "method": "percent", "power": "turbo" if k % 2 else "off"})
        p.push_status("zone")

    def zone0_unreported_flip(p, k):
        # zone 0 is switched to the other control method at the wall panel and the report of it is lost
        # (docs/design.md: the AirTouch 4 console is known not to publish some group changes)
        z = p.astate["zone"][0]
        z["method"] = "percent" if z["method"] == "temperature" else "temperature"
        for gen, w in p.w.items():
            w.console.state["zone"][0]["method"] = z["method"]

    def st_zone2(p, k):
        p.astate["zone"][2].update({"setpoint": 19 + k, "spill": True, "battery_low": k % 2 == 0, "temperature": 18.0 + k / 10})
        p.push_status("zone")

    def st_timer(p, k):
        p.astate["timer"][0]["on"] = {"disabled": False, "hour": (5 + k) % 24, "minute": 30}
        p.push_status("timer")

    def st_version(p, k):
        p.ainst["update"] = not p.ainst["update"]
        p.push_status("version")

    def cmd(label, fn):
        def run(p, k):
            return p.command(label, fn)
        return run

    def reconnect(p, k):
        for w in p.w.values():
            w.net.live()[-1].peer_eof()
            w.loop.run_until(w.loop.time() + 1.0)

    def reinit(p, k):
        # the application shuts both clients down and initialises the same objects again; nothing changed at the consoles:
        # the second life starts from what the console reports, like the first, in both generations alike
        for gen, w in p.w.items():
            w.spawn(w.at.shutdown())
            w.loop.run_until(w.loop.time() + 1.0)
            w.init_result.clear()
            w.start_init()
            w.loop.run_until(w.loop.time() + 1.0)
            if not (w.init_result and w.init_result[-1][:2] == ("returned", True)):
                return f"AirTouch {gen} client: init() after shutdown() -> {w.init_result}"

    return [
        ("shutdown+init", reinit),
        ("ac0-status", st_ac0), ("ac1-status", st_ac1), ("zone0-status", st_zone0), ("zone2-status", st_zone2),
        ("timer-status", st_timer), ("version", st_version), ("reconnect", reconnect),
        ("ac0-error-same-code", st_ac0_error), ("lose-next-error-reply", lose_error_reply),
        ("ac0.set_mode(HEAT)", cmd("ac0.set_mode(HEAT)", lambda at, acs, zs: (lambda: acs[0].set_mode(A.AcMode.HEAT, power_on=True)))),
        ("ac0.set_fan_speed(TURBO)", cmd("ac0.set_fan_speed(TURBO)", lambda at, acs, zs: (lambda: acs[0].set_fan_speed(A.AcFanSpeed.TURBO)))),
        ("zone0.set_damper(30)", cmd("zone0.set_damper_percentage(30)", lambda at, acs, zs: (lambda: zs[0].set_damper_percentage(30)))),
        ("zone0-unreported-method-flip", zone0_unreported_flip),
        ("zone0.set_target(23)", cmd("zone0.set_target_temperature(23)", lambda at, acs, zs: (lambda: zs[0].set_target_temperature(23)))),
        ("zone1.set_target(21)", cmd("zone1.set_target_temperature(21) [no sensor]", lambda at, acs, zs: (lambda: zs[1].set_target_temperature(21)))),
        ("acN.set_target(35)", cmd("last ac.set_target_temperature(35)", lambda at, acs, zs: (lambda: acs[max(acs)].set_target_temperature(35)))),
        ("ac0.clear_timer", cmd("ac0.clear_quick_timer(OFF)", lambda at, acs, zs: (lambda: acs[0].clear_quick_timer(A.AcTimerType.OFF_TIMER)))),
    ]


def run_history(job):
    variant, seq = job
    p = Pair(variant)
    ev = events()
    r = p.compare_views("after init")
    if r:
        return ("after-init", r)
    for k, idx in enumerate(seq):
        name, fn = ev[idx]
        label = f"variant {variant} history {[ev[i][0] for i in seq[:k + 1]]}"
        r = fn(p, k + 1)
        if r:
            return (f"command:{name}", f"{label}: {r}")
        for w in p.w.values():
            w.loop.settle()
        r = p.compare_views(label)
        if r:
            return (f"view-after:{name}", r)
    return (None, None)


def run_init_drop(job):
    """The link drops during init(), at handshake step k (the console has received the k-th request and drops the
    connection instead of answering; mode 'after': it answers and drops right after), and comes back at once.
    Whatever the unified API does then - complete the handshake or give up after five seconds - it does on both
    generations, with equal models."""
    variant, k, mode = job
    ainst = abstract_installation(variant)
    astate = abstract_state(ainst)
    p = Pair.__new__(Pair)
    p.ainst, p.astate, p.w = ainst, astate, {}
    results = {}
    for gen in (4, 5):
        inst = concrete(gen, ainst)
        st = console.default_state(inst)
        sync_state(gen, st, astate)
        w = apiworld.ApiWorld(gen, inst, st, auto=True)
        seen = [0]

        def hook(kind, fr, answers, w=w, seen=seen):
            if not kind.startswith("req-"):
                return answers
            seen[0] += 1
            if seen[0] == k + 1:
                live = w.net.live()
                if live:
                    live[-1].peer_eof()
                return answers if mode == "after" else []
            return answers
        w.console.answer_hook = hook
        w.start_init()
        w.loop.run_until(6.0)
        results[gen] = (w.init_result[-1][:2] if w.init_result else None, w.at.initialised)
        p.w[gen] = w
    label = f"variant {variant}: link dropped at handshake step {k} ({mode} the answer)"
    if results[4] != results[5]:
        return ("init-drop", f"{label}: AirTouch 4 client init() -> {results[4][0]}, initialised={results[4][1]}; "
                             f"AirTouch 5 client init() -> {results[5][0]}, initialised={results[5][1]}")
    # (the model of a client that is not initialised is unfinished business on either side: only judged once both are)
    r = p.compare_views(label) if results[4][1] else None
    if r:
        return ("init-drop-view", r)
    # later on both must be in the same state too (a handshake that was rescued late, or not at all)
    for w in p.w.values():
        w.loop.run_until(20.0)
    late = {g: w.at.initialised for g, w in p.w.items()}
    if late[4] != late[5]:
        return ("init-drop", f"{label}: 20 s later initialised is {late[4]} on AirTouch 4 and {late[5]} on AirTouch 5")
    r = p.compare_views(label + ", 20 s later") if late[4] else None
    if r:
        return ("init-drop-view", r)
    return (None, None)


def outage_commands():
    import pyairtouch as A
    return [("check_for_updates()", lambda at, acs, zs: at.check_for_updates),
            ("ac0.set_mode(HEAT)", lambda at, acs, zs: (lambda: acs[0].set_mode(A.AcMode.HEAT))),
            ("ac0.set_power(TOGGLE)", lambda at, acs, zs: (lambda: acs[0].set_power(A.AcPowerControl.TOGGLE))),
            ("zone0.set_power(OFF)", lambda at, acs, zs: (lambda: zs[0].set_power(A.ZonePowerState.OFF))),
            ("zone0.set_damper_percentage(30)", lambda at, acs, zs: (lambda: zs[0].set_damper_percentage(30))),
            ("ac0.clear_quick_timer(OFF)", lambda at, acs, zs: (lambda: acs[0].clear_quick_timer(A.AcTimerType.OFF_TIMER)))]


def run_outage_command(job):
    """The same call made while the link is down, the link coming back d seconds later: it reaches both consoles or
    neither, with the same meaning, and the models agree afterwards."""
    ci, d = job
    label, mk = outage_commands()[ci]
    p = Pair(0)
    seen = {}
    for gen, w in p.w.items():
        acs = {a.ac_id: a for a in w.at.air_conditioners}
        zones = {z.zone_id: z for a in w.at.air_conditioners for z in a.zones}
        w.net.auto = None
        w.net.live()[-1].peer_eof()
        w.loop.settle()
        n0 = len(w.console.requests)
        t0 = w.loop.time()
        rec = w.call(mk(w.at, acs, zones), label)
        w.loop.settle()
        w.loop.run_until(t0 + d)
        w.net.auto = "accept"
        w.net.resolve_all(True)
        w.loop.run_until(t0 + d + 5.0)
        # what reached the console apart from the client's own refresh on re-connection (AC status + zone status)
        # and the error-information follow-ups
        got = []
        for r in w.console.requests[n0:]:
            if r[2] in ("req-ac-status", "req-zone-status", "req-error"):
                continue
            kind, reading = cc.read_command(gen, r[3])
            got.append(normalise(gen, kind, reading))
        seen[gen] = (rec["status"], got)
    tag = f"{label} called while the link is down, link back after {d} s"
    if seen[4] != seen[5]:
        return ("outage-command", f"{tag}: AirTouch 4 client: call {seen[4][0]}, console received {seen[4][1]}; "
                                  f"AirTouch 5 client: call {seen[5][0]}, console received {seen[5][1]}")
    r = p.compare_views(tag)
    if r:
        return ("outage-command-view", r)
    return (None, None)


def run_products(job):
    """Single-step cross products restricted to the common domain."""
    import datetime
    import pyairtouch as A
    what = job
    p = Pair(0)
    n = 0
    if what == "status":
        for power, mode, fan, spill in itertools.product(["off", "on"], ["auto", "heat", "dry", "fan", "cool", "auto_heat", "auto_cool"], COMMON_FANS, [False, True]):
            for a in (0, 1):
                p.astate["ac"][a].update({"power": power, "mode": mode, "fan": fan, "spill": spill})
            p.push_status("ac")
            n += 1
            r = p.compare_views(f"ac status {power}/{mode}/{fan}/spill={spill}")
            if r:
                return n, ("view:ac-status", r)
        for power, method, sensor, spill, low in itertools.product(["off", "on", "turbo"], ["percent", "temperature"], [False, True], [False, True], [False, True]):
            for pct in (0, 55, 100):
                p.astate["zone"][0].update({"power": power, "method": method, "sensor": sensor, "spill": spill, "battery_low": low, "percent": pct})
                p.push_status("zone")
                n += 1
                r = p.compare_views(f"zone status {power}/{method}/sensor={sensor}/spill={spill}/low={low}/{pct}%")
                if r:
                    return n, ("view:zone-status", r)
    else:
        calls = []
        for m in A.AcMode:
            for on in (False, True):
                calls.append((f"set_mode({m.name},{on})", lambda at, acs, zs, m=m, on=on: (lambda: acs[0].set_mode(m, power_on=on))))
        for f in A.AcFanSpeed:
            if f.name != "INTELLIGENT_AUTO":
                calls.append((f"set_fan_speed({f.name})", lambda at, acs, zs, f=f: (lambda: acs[0].set_fan_speed(f))))
        for pc in (A.AcPowerControl.TOGGLE, A.AcPowerControl.TURN_OFF, A.AcPowerControl.TURN_ON):
            calls.append((f"set_power({pc.name})", lambda at, acs, zs, pc=pc: (lambda: acs[1].set_power(pc))))
        for t in range(10, 36):
            calls.append((f"ac.set_target_temperature({t})", lambda at, acs, zs, t=t: (lambda: acs[0].set_target_temperature(t))))
            calls.append((f"zone.set_target_temperature({t})", lambda at, acs, zs, t=t: (lambda: zs[0].set_target_temperature(t))))
        for d in range(-2, 104):
            calls.append((f"zone.set_damper_percentage({d})", lambda at, acs, zs, d=d: (lambda: zs[2].set_damper_percentage(d))))
        for ps in A.ZonePowerState:
            calls.append((f"zone.set_power({ps.name})", lambda at, acs, zs, ps=ps: (lambda: zs[1].set_power(ps))))
        for tt in A.AcTimerType:
            calls.append((f"set_quick_timer({tt.name}, 1h30)", lambda at, acs, zs, tt=tt: (lambda: acs[1].set_quick_timer(tt, datetime.timedelta(hours=1, minutes=30)))))
            calls.append((f"set_quick_timer({tt.name}, 07:15)", lambda at, acs, zs, tt=tt: (lambda: acs[1].set_quick_timer(tt, datetime.time(7, 15)))))
            calls.append((f"clear_quick_timer({tt.name})", lambda at, acs, zs, tt=tt: (lambda: acs[1].clear_quick_timer(tt))))
        calls.append(("check_for_updates", lambda at, acs, zs: at.check_for_updates))
        # the same timer requests again, after the consoles reported two different timers
        calls.append(("<report timers on=06:30 off=22:30>", None))
        for tt in A.AcTimerType:
            calls.append((f"set_quick_timer({tt.name}, 07:15) with other timer set", lambda at, acs, zs, tt=tt: (lambda: acs[1].set_quick_timer(tt, datetime.time(7, 15)))))
            calls.append((f"clear_quick_timer({tt.name}) with other timer set", lambda at, acs, zs, tt=tt: (lambda: acs[1].clear_quick_timer(tt))))
        for label, fn in calls:
            if fn is None:
                p.astate["timer"][1] = {"on": {"disabled": False, "hour": 6, "minute": 30}, "off": {"disabled": False, "hour": 22, "minute": 30}}
                p.push_status("timer")
                continue
            n += 1
            r = p.command(label, fn)
            if r:
                return n, (f"command:{label.split('(')[0]}", r)
    return n, (None, None)


def replay_input(rp):
    if rp.get("outage_command") is not None:
        return run_outage_command(tuple(rp["outage_command"]))[1]
    if rp.get("init_drop") is not None:
        return run_init_drop(tuple(rp["init_drop"]))[1]
    if rp.get("seq") is not None:
        return run_history((rp["variant"], tuple(rp["seq"])))[1]
    return rp.get("message")


def run(tier, seed, part=None):
    chk = runner.Check("C19", tier, seed, "model_checking")
    chk.trusted_base = ["pvmc.console.SimConsole for both generations built from ONE abstract installation/state", "pvmc.ref readers",
                        "normalisation of commands (§4.3: implied control method == keep)"]
    chk.assumptions = ["common domain: contiguous zones, integer temperatures, modes/fans both generations know, turbo supported, one limit "
                       "pair for heat and cool; sensorless zones report no set-point in either protocol",
                       "documented differences excluded: set-point resolution, away/sleep, intelligent auto, bypass, per-mode limits"]
    depth = 3 if tier == "quick" else 4
    ev = events()
    total = 0
    seqs = [s for d in range(1, depth + 1) for s in itertools.product(range(len(ev)), repeat=d)]
    jobs = [(0, s) for s in seqs] + [(1, s) for s in seqs if len(s) <= depth - 1] + [(2, s) for s in seqs if len(s) <= depth - 2]
    res = explorer.pool().map(run_history, jobs, chunksize=16)
    for job, (sig, msg) in zip(jobs, res):
        total += len(job[1])
        if sig:
            chk.violation(sig, msg, {"kind": "input", "module": "pvmc.props.c19", "variant": job[0], "seq": list(job[1])})
    for what, (n, (sig, msg)) in zip(("status", "commands"), explorer.pool().map(run_products, ["status", "commands"], chunksize=1)):
        total += n
        chk.parts.append({"scenario": f"products/{what}", "steps": n})
        if sig:
            chk.violation(sig, msg, {"kind": "input", "module": "pvmc.props.c19", "message": msg})
    djobs = [(v, k, mode) for v in (0, 1) for k in range(0, 6) for mode in ("instead-of", "after")]
    for job, (sig, msg) in zip(djobs, explorer.pool().map(run_init_drop, djobs, chunksize=1)):
        total += 1
        if sig:
            chk.violation(sig, msg, {"kind": "input", "module": "pvmc.props.c19", "init_drop": list(job), "message": msg})
    chk.parts.append({"scenario": "init() with the link dropped at each handshake step", "runs": len(djobs)})
    ojobs = [(ci, d) for ci in range(len(outage_commands())) for d in (0.5, 1.5, 29.0, 31.0)]
    for job, (sig, msg) in zip(ojobs, explorer.pool().map(run_outage_command, ojobs, chunksize=1)):
        total += 1
        if sig:
            chk.violation(sig, msg, {"kind": "input", "module": "pvmc.props.c19", "outage_command": list(job), "message": msg})
    chk.parts.append({"scenario": "command issued during an outage of 0.5 / 1.5 / 29 / 31 s", "runs": len(ojobs)})
    chk.parts.append({"scenario": "joint histories", "depth": depth, "events": [e[0] for e in ev], "sequences": len(jobs)})
    chk.samples.append({"history": [ev[i][0] for i in seqs[len(seqs) // 2]]})
    chk.counters["states"] = len(jobs)
    chk.counters["transitions"] = total
    chk.counters["executions"] = total * 2
    return chk.finish({"rule": "transitions = abstract events applied to an AirTouch 4 client and an AirTouch 5 client side by side; "
                               "states = joint histories compared"})
