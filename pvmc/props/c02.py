"""C02 - retry discipline: bounded attempts, none after expiry, non-idempotent once (DESIGN §6 C02)."""
from __future__ import annotations

from .. import explorer, runner
from ..vloop import EPS
from . import sockcommon as sc

SPEC = "pvmc.props.c02:Scenario"


def header_len(gen):
    return 8 if gen == 4 else 20


def attempts(w):
    """Per call idx: list of (time, cid, kind) for each frame attempt; kind in
    'ok' (header chunk written), 'fail' (header chunk hit the write fault), 'local' (dropped locally
    after the transport was already lost: never on the wire).  Frames are attributed through the
    packet id in the header chunk (per-call stamping, established by C01)."""
    hl = header_len(w.gen)
    pid_off = 4 if w.gen == 4 else 16
    out = {}
    seq = []
    for e in w.net.log:
        if e[1] in ("write", "write_fail", "write_after_loss"):
            data = e[3]
            if len(data) == hl and data[:2] == b"\x55\x55":
                kind = {"write": "ok", "write_fail": "fail", "write_after_loss": "local"}[e[1]]
                pid = data[pid_off]
                out.setdefault(pid, []).append((e[0], e[2], kind))
                seq.append((e[0], e[2], kind, pid))
    return out, seq


def frame_failed(w, cid, t, pid):
    """Did the client learn that the frame attempt (cid, pid) failed?  True when any chunk of that
    connection at/after the header was a write_fail / write_after_loss."""
    return any(e[1] in ("write_fail", "write_after_loss") and e[2] == cid for e in w.net.log)


def oracle(w, final=False):
    att, seq = attempts(w)
    calls = {c["idx"] % 256: c for c in w.calls}
    for pid, lst in att.items():
        c = calls.get(pid)
        if c is None:
            return {"clause": "nothing-unsubmitted", "signature": "unknown-packet-id", "message": f"frame with packet id {pid} matches no call"}
        wire = [a for a in lst if a[2] in ("ok", "fail")]
        if len(wire) > 1 + c["retries"]:
            return {"clause": "bounded-attempts", "signature": f"too-many-attempts-policy-{c['policy']}",
                    "message": f"call #{c['idx']} policy {c['policy']} (retries {c['retries']}) put on the wire {len(wire)} times: {wire}"}
        for (t, cid, kind) in wire:
            if not t < c["t"] + c["life"]:
                return {"clause": "none-after-expiry", "signature": f"attempt-at-or-after-expiry-policy-{c['policy']}",
                        "message": f"call #{c['idx']} accepted at {c['t']} lifetime {c['life']}: attempt at t={t} (expiry {c['t'] + c['life']})"}
    # re-sent first on the next connection after exactly one known failure
    by_conn = {}
    for (t, cid, kind, pid) in seq:
        by_conn.setdefault(cid, []).append((t, kind, pid))
    cids = sorted(by_conn)
    opened = {t.cid: t.opened_at for t in w.net.conns}
    for cid in sorted(opened):
        if cid == 0:
            continue
        # the most recent earlier connection that carried attempts
        prev = [k for k in cids if k < cid]
        if not prev:
            continue
        last = by_conn[prev[-1]][-1]
        (t_last, kind_last, pid_last) = last
        c = calls[pid_last]
        known_failed = kind_last in ("fail", "local") or _later_chunk_failed(w, prev[-1], pid_last)
        if not known_failed:
            continue
        n_before = sum(1 for (t, k, kind, p) in seq if p == pid_last and k < cid)
        if c["retries"] - n_before + 1 <= 0:
            continue          # budget exhausted: may be dropped
        if not opened[cid] < c["t"] + c["life"]:
            continue          # expired before the new connection
        mine = by_conn.get(cid, [])
        if mine:
            if mine[0][2] != pid_last and mine[0][2] not in _stalled_pids(w, prev[-1]):
                return {"clause": "resent-first-on-next-connection", "signature": "retry-not-first",
                        "message": f"call #{c['idx']} failed on connection {prev[-1]}; first frame on connection {cid} "
                                   f"is packet {mine[0][2]}, not the retried command"}
        elif final and not w.loop.has_ready() and w.sock.is_connected and any(t.cid == cid and not t._closing for t in w.net.conns):
            return {"clause": "transient-failure-does-not-lose-idempotent", "signature": "idempotent-lost-after-one-failure",
                    "message": f"call #{c['idx']} (policy {c['policy']}) failed once on connection {prev[-1]} and was never "
                               f"re-sent on connection {cid} opened at {opened[cid]} (expiry {c['t'] + c['life']})"}
    return None


def _stalled_pids(w, cid):
    """Packet ids whose frames went into the send buffer of connection ``cid`` while it was stalled
    and that were still there when it died: their senders learn of the failure too, so any of them
    may legitimately be the first one re-sent."""
    hl = header_len(w.gen)
    pid_off = 4 if w.gen == 4 else 16
    stalled = False
    out = set()
    for e in w.net.log:
        if e[1] in ("abort", "close", "lost") and e[2] == cid:
            break
        if e[1] == "pause" and e[2] == cid:
            stalled = True
        elif e[1] == "resume" and e[2] == cid:
            stalled = False
            out.clear()
        elif stalled and e[1] == "write" and e[2] == cid and len(e[3]) == hl and e[3][:2] == b"\x55\x55":
            out.add(e[3][pid_off])
    return out


def _later_chunk_failed(w, cid, pid):
    """The header chunk of (cid, pid) was written but a later chunk of the same frame failed."""
    hl = header_len(w.gen)
    pid_off = 4 if w.gen == 4 else 16
    seen = False
    for e in w.net.log:
        if e[1] in ("write", "write_fail", "write_after_loss") and e[2] == cid:
            data = e[3]
            is_hdr = len(data) == hl and data[:2] == b"\x55\x55"
            if is_hdr:
                seen = data[pid_off] == pid
            elif seen and e[1] != "write":
                return True
    return False


class Scenario(sc.SockWorld):
    def __init__(self, params):
        super().__init__(params)
        self.max_send = params.get("max_send", 2)
        self.max_fault = params.get("max_fault", 4)
        self.nfault = 0
        self.nadv = 0
        self.nstall = 0
        self.policies = params.get("policies", ["I", "N", "C"])

    def kind(self, a):
        return a[0] if a[0] in ("run", "tick") else "env"

    def corners(self):
        now = self.loop.time()
        exp = sorted({c["t"] + c["life"] for c in self.accepted() if c["t"] + c["life"] > now - EPS})
        out = []
        for e in exp[:2]:
            for t in (e - EPS, e, e + EPS):
                if t > now and t not in out:
                    out.append(t)
        return out[:3]

    def enabled(self):
        acts = []
        ready = self.loop.has_ready()
        if ready:
            acts.append(("run",))
        elif self.loop.next_deadline() is not None:
            acts.append(("tick",))
        if self.net.pending:
            acts.append(("accept",))
            if self.p.get("stall") and self.nstall < 1:
                acts.append(("accept-stalled",))     # zero window from the start: drain() suspends
            if self.nfault < self.max_fault:
                acts.append(("refuse",))
                # connection accepted, but the k-th write on it fails (fault armed at open time)
                acts.append(("accept_failing", 0))
        live = self.net.live()
        if live and self.p.get("stall") and not live[-1].paused and self.nstall < 1:
            acts.append(("stall",))
        if self.p.get("stall") and self.net.stalled():
            acts.append(("resume",))
        if live and self.nfault < self.max_fault:
            if live[-1].fail_after is None:
                for k in self.p.get("fail_chunks", (0, 1, 2)):
                    acts.append(("failw", k))
            acts.append(("reset",))
            acts.append(("linkerr",))        # read side dies with ETIMEDOUT: an OSError that is not a ConnectionError
        if len(self.calls) < self.max_send:
            for pol in self.policies:
                acts.append(("send", pol))
        if not ready and self.nadv < self.p.get("max_adv", 2):
            for t in self.corners():
                acts.append(("adv", t))
        return acts

    def do(self, a):
        L = self.loop
        op = a[0]
        if op == "run":
            if self.p.get("macro"):
                L.settle()          # plan without deviations: intermediate turn boundaries cannot branch
            else:
                L.turn()
        elif op == "tick":
            L.advance_to(L.next_deadline())
            if self.p.get("macro"):
                L.settle()
            else:
                L.turn()
        elif op == "adv":
            self.nadv += 1
            nd = L.next_deadline()
            L.advance_to(a[1] if nd is None else min(a[1], nd))
        elif op == "accept":
            self.net.resolve(True)
        elif op == "accept-stalled":
            self.nstall += 1
            self.net.pause_next = True
            self.net.resolve(True)
        elif op == "stall":
            self.nstall += 1
            self.net.live()[-1].pause()
        elif op == "resume":
            self.net.stalled()[-1].resume()
        elif op == "accept_failing":
            self.nfault += 1

            def arm(t, k=a[1]):
                t.fail_after = k
                self.net.on_open = None
            self.net.on_open = arm
            self.net.resolve(True)
        elif op == "refuse":
            self.nfault += 1
            self.net.resolve(False)
        elif op == "failw":
            self.nfault += 1
            self.net.live()[-1].fail_after = a[1]
        elif op == "reset":
            self.nfault += 1
            self.net.live()[-1].peer_reset()
        elif op == "linkerr":
            self.nfault += 1
            self.net.live()[-1].peer_reset(TimeoutError(110, "sim: connection timed out"))
        elif op == "send":
            self.submit(self.cat[len(self.calls) % len(self.cat)], a[1])
        else:
            raise explorer.HarnessError(f"unknown action {a!r}")

    def step_check(self):
        return oracle(self)

    def finish(self):
        """The network behaves from now on: everything still owed must arrive, nothing more than allowed."""
        self.net.auto = "accept"
        for t in self.net.conns:
            t.fail_after = None
            if t.paused:
                t.resume()
        self.net.pause_next = False
        self.net.resolve_all(True)
        # the oracle is a function of the cumulative log: judging once at the end sees everything
        self.loop.run_until(self.loop.time() + 35.0)
        return oracle(self, final=True)

    def fp_extra(self):
        return super().fp_extra() + (self.nfault, self.nadv, self.nstall, self.net.pause_next)


def run(tier, seed, part=None):
    chk = runner.Check("C02", tier, seed, "model_checking")
    chk.trusted_base = ["CPython 3.12 asyncio unmodified", "pvmc.vloop.VLoop", "pvmc.simnet", "pvmc.ref.framing",
                        "retry policy table of docs/design.md (2 retries/30 s, 0/30 s, 0/1 s)"]
    chk.assumptions = ["a failed local write counts as 'put on the wire' (it may have reached the peer); writes dropped "
                       "after the transport was already lost do not",
                       "socket part only in this check; the per-command policy choice of the API objects is decided by C02-API part"]
    if tier == "quick":
        plans = [({"max_send": 2, "max_fault": 3, "max_adv": 1}, 6, 0), ({"max_send": 2, "max_fault": 2, "max_adv": 1, "fail_chunks": [0, 2]}, 5, 1),
                 ({"max_send": 2, "max_fault": 1, "max_adv": 1, "fail_chunks": [0], "stall": True}, 6, 0)]
        cap = 50
    else:
        plans = [({"max_send": 3, "max_fault": 6, "max_adv": 2}, 10, 1), ({"max_send": 2, "max_fault": 4, "max_adv": 2}, 8, 2),
                 ({"max_send": 3, "max_fault": 2, "max_adv": 2, "stall": True}, 9, 1)]
        cap = 300
    for gen in (4, 5):
        for extra, depth, dev in plans:
            params = dict(gen=gen, macro=(dev == 0), **extra)
            res = explorer.explore(SPEC, params, depth, dev, time_cap=cap, seed=seed, label=f"at{gen}/{extra}/d{depth}/v{dev}")
            chk.add_explorer(f"at{gen}/socket" + ("/stall" if extra.get("stall") else ""), SPEC, params, res, {"depth": depth, "deviations": dev, **extra})
    chk.add_audit(SPEC, {"gen": 4, "max_send": 2, "max_fault": 3, "max_adv": 1}, 5, 1, limit=4000 if tier == "thorough" else 600)
    from . import c02api
    c02api.run_part(chk, tier)
    return chk.finish()
