"""C01 - accepted commands reach the wire once each, in order, unsubstituted (DESIGN §6 C01)."""
from __future__ import annotations

from .. import explorer, runner
from ..vloop import EPS
from . import sockcommon as sc

SPEC = "pvmc.props.c01:Scenario"
POL = ["I", "I", "C", "N", "I", "I"]          # policy of catalogue entry k


def oracle(w, final):
    """C01 reference model.  ``final``: the state is quiescent, liveness clauses apply."""
    frames, problems = w.wire()
    if problems:
        return {"clause": "frames-do-not-interleave", "signature": "stream-residue", "message": problems[0]}
    pairs, unmatched = sc.match_frames(w, frames)
    if unmatched:
        f = unmatched[0]
        return {"clause": "nothing-unsubmitted", "signature": "unsubmitted-frame",
                "message": f"frame type 0x{f['fr'].typ:02x} payload {f['fr'].data.hex()} on connection "
                           f"{f['cid']} at t={f['t']} matches no accepted message"}
    accepted = {c["idx"] for c in w.accepted()}
    seen = {}
    order = []
    for f, c in pairs:
        if c["idx"] not in accepted:
            return {"clause": "nothing-unsubmitted", "signature": "rejected-call-transmitted",
                    "message": f"message {c['name']} whose send() raised {c['status']} was transmitted"}
        if not f["fr"].crc_ok or (w.gen == 5 and not f["fr"].outer_ok):
            return {"clause": "frame-of-that-message", "signature": "bad-frame-on-wire",
                    "message": f"frame for {c['name']} has wrong check bytes / outer length"}
        if c["idx"] in seen:
            return {"clause": "exactly-once", "signature": "duplicate-transmission",
                    "message": f"message #{c['idx']} {c['name']} transmitted twice (t={seen[c['idx']]['t']} and t={f['t']}) "
                               "with no write fault"}
        seen[c["idx"]] = f
        order.append(c["idx"])
        if not f["t"] < c["t"] + c["life"]:
            return {"clause": "within-lifetime", "signature": "transmitted-after-expiry",
                    "message": f"message #{c['idx']} accepted at {c['t']} (lifetime {c['life']}) written at {f['t']}"}
    if order != sorted(order):
        return {"clause": "acceptance-order", "signature": "out-of-order",
                "message": f"transmission order {order} differs from acceptance order"}
    # packet ids: stamped per send() call (or per frame) - either point, consistently, modulo 256
    ids = [f["fr"].pid for f, c in pairs]
    per_call = [c["idx"] % 256 for f, c in pairs]
    per_frame = [k % 256 for k in range(len(pairs))]
    if ids != per_call and ids != per_frame:
        return {"clause": "packet-id-sequence", "signature": "packet-id",
                "message": f"packet ids {ids[:12]}... are neither per-call {per_call[:12]} nor per-frame {per_frame[:12]}"}
    # timing + liveness: as soon as a connection exists within the lifetime
    ivs = w.conn_intervals()
    paused = any(t.paused for t in w.net.live())       # only a live paused stream can hold a sender back
    for c in w.accepted():
        f = seen.get(c["idx"])
        if f is not None:
            opened = next(o for (cid, o, e) in ivs if cid == f["cid"])
            due = max(c["t"], opened)
            if f["t"] != due and not paused and not w.p.get("pausing"):
                return {"clause": "as-soon-as-connected", "signature": "late-transmission",
                        "message": f"message #{c['idx']} accepted at {c['t']}, connection {f['cid']} opened at {opened}, "
                                   f"but written at {f['t']}"}
            # under back-pressure a message may wait behind earlier ones whose writer is parked - but a message
            # accepted on an open connection when everything accepted before it has already been written has
            # nothing to wait for: it goes to the transport at once, stalled peer or not
            if f["t"] != c["t"] and opened < c["t"] and f["cid"] == _conn_at(w, ivs, c["t"]):
                earlier = [seen.get(d["idx"]) for d in w.accepted() if d["idx"] < c["idx"]]
                if all(e is not None and e["t"] < c["t"] for e in earlier):
                    return {"clause": "as-soon-as-connected", "signature": "late-transmission-nothing-ahead",
                            "message": f"message #{c['idx']} accepted at {c['t']} on connection {f['cid']} (open since {opened}) with every "
                                       f"earlier message already written, but written only at {f['t']}"}
            continue
        if not final or paused:
            continue
        # never written so far: is there a live connection during its lifetime right now?
        now = w.loop.time()
        live = [t for t in w.net.conns if not t._closing and not t.eof_from_peer]
        if live and w.sock.is_connected:
            due = max(c["t"], live[-1].opened_at)
            if w.p.get("pausing") and not now < c["t"] + c["life"]:
                # it may have expired behind a stalled earlier write; had it been owed at an earlier
                # quiescent state (every one of them is judged) it was reported there
                continue
            if due < c["t"] + c["life"] and now >= due:
                return {"clause": "transmitted-when-connected", "signature": "lost-message",
                        "message": f"message #{c['idx']} {c['name']} (accepted at {c['t']}, lifetime {c['life']}) was never "
                                   f"written although connection {live[-1].cid} has been open since {live[-1].opened_at} (now {now})"}
    return None


def _conn_at(w, ivs, t):
    """The connection that was open (not yet closed by anybody) strictly around time t, or None."""
    for (cid, o, e) in ivs:
        if o < t and (e is None or e > t) and not any(x[1] in ("abort", "lost") and x[2] == cid and x[0] <= t for x in w.net.log):
            tr = w.net.conns[cid]
            if not any(x[1] == "close" and x[2] == cid and x[0] <= t for x in w.net.log) and not (tr.eof_from_peer and False):
                return cid
    return None


class Scenario(sc.SockWorld):
    def __init__(self, params):
        super().__init__(params)
        self.max_send = params.get("max_send", 4)
        self.npause = 0

    def kind(self, a):
        return a[0] if a[0] in ("run", "tick") else "env"

    def enabled(self):
        acts = []
        if self.loop.has_ready():
            acts.append(("run",))
        elif self.loop.next_deadline() is not None:
            acts.append(("tick",))
        if self.net.pending:
            acts += [("accept",), ("refuse",)]
            if self.p.get("pausing") and self.npause < 1:
                acts.append(("accept-paused",))       # the stream opens with back-pressure already on
        live = self.net.live()
        if live:
            if not live[-1].eof_from_peer:
                acts.append(("eof",))
            if self.p.get("pausing") and not live[-1].paused and self.npause < 1:
                acts.append(("pause",))
        if self.p.get("pausing") and self.net.stalled():
            acts.append(("resume",))          # also for a stream the client has closed and that lingers on its unsent bytes
        if len(self.calls) < self.max_send:
            acts.append(("send",))
        if not self.loop.has_ready() and self.p.get("adv", True):
            acts.append(("adv", 0.5))
        return acts

    def do(self, a):
        L = self.loop
        op = a[0]
        if op == "run":
            L.turn()
        elif op == "tick":
            L.advance_to(L.next_deadline())
            L.turn()
        elif op == "adv":
            nd = L.next_deadline()
            t = L.time() + a[1]
            L.advance_to(t if nd is None else min(t, nd))
        elif op in ("accept", "refuse"):
            self.net.resolve(op == "accept")
        elif op == "accept-paused":
            self.npause += 1
            self.net.pause_next = True
            self.net.resolve(True)
        elif op == "eof":
            self.net.live()[-1].peer_eof()
        elif op == "pause":
            self.npause += 1
            self.net.live()[-1].pause()
        elif op == "resume":
            self.net.stalled()[-1].resume()
        elif op == "send":
            k = len(self.calls)
            pol = self.p.get("pol", POL)
            idx = self.p.get("cat_idx")            # e.g. [0, 1, 0, 0]: the same message submitted again and again
            entry = self.cat[(idx[k % len(idx)] if idx else k) % len(self.cat)]
            self.submit(entry, pol[k % len(pol)])
        else:
            raise explorer.HarnessError(f"unknown action {a!r}")

    def step_check(self):
        return oracle(self, final=False)

    def finish(self):
        # liveness is judged on the quiescent state itself (non destructive)
        return oracle(self, final=True)

    def fp_extra(self):
        return super().fp_extra() + (self.npause, self.net.pause_next)


def linear_family(gen, script):
    """One scripted execution (no branching): list of ops
    ('send', n) send n family messages back to back; ('accept',); ('refuse',); ('eof',); ('settle',);
    ('adv', dt)."""
    w = Scenario({"gen": gen, "max_send": 10 ** 6})
    n = 0
    w.loop.settle()
    for op in script:
        if op[0] == "send":
            for _ in range(op[1]):
                w.submit(w.fam(n), "I")
                n += 1
                if op[2:] and op[2] == "settle_each":
                    w.loop.settle()
        elif op[0] == "accept":
            w.net.resolve(True)
        elif op[0] == "refuse":
            w.net.resolve(False)
        elif op[0] == "eof":
            w.net.live()[-1].peer_eof()
        elif op[0] == "settle":
            w.loop.settle()
        elif op[0] == "adv":
            w.loop.advance_to(w.loop.time() + op[1])
        v = oracle(w, final=False)
        if v:
            return w, v
    w.loop.settle()
    return w, oracle(w, final=True)


def run_families(chk, tier):
    """k = 1..10 messages queued during one outage, then connect; 300 consecutive sends with an
    outage at each of sends 250..260 (packet id wrap)."""
    n = 0
    for gen in (4, 5):
        for k in range(1, 14):          # 11..13: the surplus is refused with the overflow error - and stays refused
            for first in ("down-from-start", "after-eof"):
                if first == "down-from-start":
                    script = [("send", k), ("settle",), ("accept",), ("settle",)]
                else:
                    script = [("accept",), ("settle",), ("send", 1, "settle_each"), ("eof",), ("settle",),
                              ("send", k), ("settle",), ("accept",), ("settle",)]
                w, v = linear_family(gen, script)
                n += 1
                chk.counters["executions"] += 1
                if v:
                    chk.violation(f"at{gen}:family-outage:{v['signature']}",
                                  f"k={k} {first}: {v['message']}",
                                  {"kind": "input", "module": "pvmc.props.c01", "gen": gen, "script": script})
        positions = range(250, 261) if tier == "thorough" else (250, 255, 256, 257, 260)
        for pos in positions:
            for k_out in (1, 3):
                script = [("accept",), ("settle",), ("send", pos, "settle_each"), ("eof",), ("settle",),
                          ("send", k_out), ("settle",), ("accept",), ("settle",), ("send", 300 - pos - k_out, "settle_each")]
                w, v = linear_family(gen, script)
                n += 1
                chk.counters["executions"] += 1
                if v:
                    chk.violation(f"at{gen}:family-wrap:{v['signature']}",
                                  f"outage at send {pos} ({k_out} queued): {v['message']}",
                                  {"kind": "input", "module": "pvmc.props.c01", "gen": gen, "script": script})
    chk.cov["linear_families_executions"] = n
    chk.samples.append({"linear_family": "k messages queued during one outage, then connect", "k": "1..10"})


def replay_input(rp):
    w, v = linear_family(rp["gen"], [tuple(x) for x in rp["script"]])
    for line in w.render_log()[-40:]:
        print("  ", line)
    return v["message"] if v else None


def run(tier, seed, part=None):
    chk = runner.Check("C01", tier, seed, "model_checking")
    chk.trusted_base = ["CPython 3.12 asyncio unmodified", "pvmc.vloop.VLoop", "pvmc.simnet.SimTransport",
                        "pvmc.ref.framing; expected payload bytes hand-written from the vendor documents"]
    chk.assumptions = ["no write faults (those are C02); pause/resume only delays, never drops",
                       "linear families (k queued during an outage; 300 sends with an outage around the packet-id wrap) "
                       "are enumerated without deviations"]
    if tier == "quick":
        plans = [({"max_send": 4}, 8, 1), ({"max_send": 3, "pausing": True, "adv": False}, 7, 1),
                 ({"max_send": 2, "pausing": True, "pol": ["I", "C"]}, 6, 1),
                 ({"max_send": 4, "cat_idx": [0, 1, 0, 0], "pol": ["I", "N", "N", "I"], "adv": False}, 7, 0)]
        cap = 40
    else:
        plans = [({"max_send": 6}, 10, 2), ({"max_send": 4, "pausing": True}, 9, 2), ({"max_send": 3, "pausing": True, "pol": ["I", "C", "C"]}, 9, 2),
                 ({"max_send": 5, "cat_idx": [0, 1, 0, 0, 1], "pol": ["I", "I", "N"]}, 9, 1)]
        cap = 300
    for gen in (4, 5):
        for extra, depth, dev in plans:
            params = dict(gen=gen, **extra)
            res = explorer.explore(SPEC, params, depth, dev, time_cap=cap, seed=seed,
                                   label=f"at{gen}/{extra}/d{depth}/v{dev}")
            chk.add_explorer(f"at{gen}" + ("/pausing" if extra.get("pausing") else "") + ("/repeated-message" if extra.get("cat_idx") else ""), SPEC, params, res,
                             {"depth": depth, "deviations": dev, **extra})
    chk.add_audit(SPEC, {"gen": 4, "max_send": 3}, 5, 1, limit=3000 if tier == "thorough" else 600)
    chk.add_audit(SPEC, {"gen": 5, "max_send": 3, "pausing": True, "adv": False}, 5, 1, limit=3000 if tier == "thorough" else 600)
    run_families(chk, tier)
    return chk.finish()
