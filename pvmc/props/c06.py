"""C06 - checksum is CRC-16/MODBUS; damaged frames are never delivered (DESIGN §6 C06)."""
from __future__ import annotations

import asyncio
import itertools

from .. import explorer, runner, worlds
from ..ref import at4, at5, framing


def _step(reg, b):
    reg ^= b
    for _ in range(8):
        reg = (reg >> 1) ^ 0xA001 if reg & 1 else reg >> 1
    return reg


def part_a_shard(first):
    """All strings that start with byte ``first``: length 1, 2 and 3.  Compares the library's
    calculate()/validate() with the bit-by-bit reference.  Returns (n_calls, registers_seen, mismatch)."""
    from pyairtouch.comms.crc16 import Crc16Modbus
    c = Crc16Modbus()
    n = 0
    r1 = _step(0xFFFF, first)
    s = bytes([first])
    want = bytes([r1 >> 8, r1 & 0xFF])
    n += 1
    if c.calculate(s) != want:
        return n, 0, f"calculate({s.hex()}) = {c.calculate(s).hex()}, CRC-16/MODBUS = {want.hex()}"
    if c.validate(s, want) is not True or c.validate(s, bytes([want[0] ^ 1, want[1]])) is not False:
        return n, 0, f"validate wrong for {s.hex()}"
    regs = set()
    for b2 in range(256):
        r2 = _step(r1, b2)
        regs.add(r2)
        s2 = bytes([first, b2])
        w2 = bytes([r2 >> 8, r2 & 0xFF])
        n += 1
        if c.calculate(s2) != w2:
            return n, 0, f"calculate({s2.hex()}) = {c.calculate(s2).hex()}, CRC-16/MODBUS = {w2.hex()}"
        if not c.validate(s2, w2) or c.validate(s2, bytes([w2[0], w2[1] ^ 0x80])):
            return n, 0, f"validate wrong for {s2.hex()}"
        for b3 in range(256):
            r3 = _step(r2, b3)
            s3 = bytes([first, b2, b3])
            n += 1
            got = c.calculate(s3)
            if got[0] != r3 >> 8 or got[1] != r3 & 0xFF:
                return n, 0, f"calculate({s3.hex()}) = {got.hex()}, CRC-16/MODBUS = {r3:04x}"
        w3 = bytes([_step(r2, 0x5A) >> 8, _step(r2, 0x5A) & 0xFF])
        if not c.validate(bytes([first, b2, 0x5A]), w3) or c.validate(bytes([first, b2, 0x5A]), bytes([w3[1], w3[0]])) and w3[0] != w3[1]:
            return n, 0, f"validate wrong for {first:02x}{b2:02x}5a"
    return n, len(regs), None


def part_a_long():
    """Index independence of the loop: strings of length 4..64 varying one position over all values."""
    from pyairtouch.comms.crc16 import Crc16Modbus
    c = Crc16Modbus()
    n = 0
    for ln in range(4, 65):
        base = bytes((i * 37 + ln) & 0xFF for i in range(ln))
        for pos in (0, ln // 2, ln - 1):
            for v in range(256):
                s = base[:pos] + bytes([v]) + base[pos + 1:]
                n += 1
                if c.calculate(s) != framing.crc_bytes(s):
                    return n, f"calculate differs from CRC-16/MODBUS for {s.hex()}"
    for bad_len in (0, 1, 3):
        try:
            c.validate(b"abc", bytes(bad_len))
            return n, f"validate accepted a {bad_len}-byte checksum"
        except ValueError:
            pass
    return n, None


# ----------------------------------------------------------------------------------- part A'
def part_a_framing(job):
    """The check bytes as the *send and receive paths* compute them (header part + payload), with the
    covered header running through all 65 536 (from-address, packet id) pairs - a bijection onto the CRC
    register values after the header, so every register state at the header/payload seam is exercised."""
    gen, lo, hi = job
    import pyairtouch.comms.socket as S
    w = RxWorld(gen)
    reg = w.reg
    if gen == 4:
        from pyairtouch.at4.comms.hdr import At4Header as Hdr
        import pyairtouch.at4.comms.x2B_group_status as st
        req, typ = st.GroupStatusRequest(), 0x2B
    else:
        from pyairtouch.at5.comms.hdr import At5Header as Hdr
        import pyairtouch.at5.comms.xC0_ctrl_status as c0
        import pyairtouch.at5.comms.xC021_zone_status as zs
        req, typ = c0.ControlStatusMessage(zs.ZoneStatusRequest()), 0xC0
    size = reg.get_encoder(req.message_id).size(req)
    pol = S.RetryPolicy(0, 30.0)
    n = 0
    t = w.net.live()[-1]
    for frm in range(lo, hi):
        for pid in range(256):
            # send path with a caller supplied header (public send_with_header)
            n0 = len(t.written)
            w.spawn(w.sock.send_with_header(Hdr(0x80, frm, pid, typ, size), req, pol))
            w.loop.settle()
            raw = bytes(t.written[n0:])
            frames, residue, err = framing.split(gen, raw)
            n += 1
            if err or residue or len(frames) != 1 or not frames[0].crc_ok:
                return n, f"at{gen} send path, header from=0x{frm:02x} id=0x{pid:02x}: check bytes {raw[-2:].hex()} are not CRC-16/MODBUS of address..payload ({raw.hex()})"
            # receive path: an intact frame of an unknown type with this header must be delivered
            g0 = len(w.got)
            t.peer_send(framing.frame(gen, 0xB0, frm, pid, 0x99, bytes([pid, frm])))
            w.loop.settle()
            n += 1
            if len(w.got) != g0 + 1 or len(w.net.conns) != 1:
                return n, f"at{gen} receive path: intact frame with header from=0x{frm:02x} id=0x{pid:02x} was rejected"
    return n, None


# ----------------------------------------------------------------------------------- part B
def corpus(gen):
    """One representative console->client frame per message kind: [(name, frame bytes)]."""
    from .. import console
    inst = console.default_installation(gen, 2, (2, 1))

    class _N:       # minimal stand-in for Net
        on_open = None
        on_write = None
    c = console.SimConsole(_N(), inst)
    out = [("version", c.version_frame(3)), ("names", c.names_frame(4)), ("ability", c.ability_frame(5)),
           ("ac-status", c.ac_status_frame(6)), ("zone-status", c.zone_status_frame(7)), ("timer-status", c.timer_status_frame(8)),
           ("error", c.ext(0xFF10, at4.write_error(0, b"ER: FFFE"), 9))]
    if gen == 5:
        out += [("ac-status-8", c.ac_status_frame(10, rl=8)), ("unknown-sub", c.fr(0xC0, bytes([0x77, 0, 0, 2, 0, 0, 0, 0, 1, 2]), 11))]
    return out


def covered_span(gen, frame):
    """(start, end) byte offsets of address..data + check bytes (everything the CRC protects)."""
    start = 2 if gen == 4 else 14
    return start, len(frame)


def patterns(nbits, tier, kind_index):
    """Error patterns as tuples of bit offsets: all single, all double, bursts (first and last bit set,
    all interiors) up to the tier's length."""
    singles = [(i,) for i in range(nbits)]
    doubles = list(itertools.combinations(range(nbits), 2))
    maxburst = 16 if (tier == "thorough" and kind_index < 2) else (9 if tier == "thorough" else 5)
    bursts = []
    for ln in range(3, maxburst + 1):
        inner = ln - 2
        for start in range(0, nbits - ln + 1):
            for mask in range(1 << inner):
                bits = (start,) + tuple(start + 1 + k for k in range(inner) if mask >> k & 1) + (start + ln - 1,)
                bursts.append(bits)
    return singles, doubles, bursts


def flip(frame, base, bits):
    """Flip the bits with the given offsets.  Offsets count in the code's own bit order - the order in
    which the reflected CRC-16 shifts message bits through its register: bytes from ``base`` on, least
    significant bit first, and the two check bytes low byte first although the frame carries the high
    byte first.  Only in that order is "a burst of at most 16 bits" a pattern every CRC-16 detects;
    consecutive bits of the byte stream as written (most significant bit first, check bytes swapped)
    that cross two byte boundaries span up to 24 positions of the code word and carry no guarantee."""
    b = bytearray(frame)
    n = len(frame) - base
    for k in bits:
        j = k // 8
        if j == n - 2:
            j = n - 1            # low check byte: second to last position of the code word, last byte of the frame
        elif j == n - 1:
            j = n - 2
        b[base + j] ^= 1 << (k % 8)
    return bytes(b)


def part_b_direct(job):
    """validate() must be False for every pattern (same length, so the CRC guarantee applies)."""
    gen, name, frame, tier, idx = job
    from pyairtouch.comms.crc16 import Crc16Modbus
    c = Crc16Modbus()
    s, e = covered_span(gen, frame)
    nbits = (e - s) * 8
    singles, doubles, bursts = patterns(nbits, tier, idx)
    n = 0
    for pats in (singles, doubles, bursts):
        for bits in pats:
            f = flip(frame, s, bits)
            n += 1
            if c.validate(f[s:-2], f[-2:]):
                return n, f"at{gen} {name}: validate() accepts the frame with bits {bits} flipped"
    return n, None


class RxWorld(worlds.World):
    def __init__(self, gen):
        super().__init__()
        import pyairtouch.comms.socket as S
        self.gen = gen
        self.reg = worlds.fresh_registry(gen)
        self.net.auto = "accept"
        self.sock = S.AirTouchSocket(self.loop, "console", 9000 + gen, self.reg)
        self.got = []

        self.policy = S.RetryPolicy(0, 30.0)

        async def on_msg(hdr, msg):
            self.got.append((hdr, msg))
        on_msg.__qualname__ = "rx.on_msg"
        self.sock.subscribe_on_message_received(on_msg)
        # (an application - the API layer on every init() - may subscribe the same callable again: still once each)
        self.sock.subscribe_on_message_received(on_msg)

        async def on_conn(*, connected):
            # a connection subscriber that takes a few loop iterations, like the API layer's (which sends requests)
            for _ in range(3):
                await asyncio.sleep(0)
        on_conn.__qualname__ = "rx.on_conn"
        self.sock.subscribe_on_connection_changed(on_conn)
        self.spawn(self.sock.open_socket())
        self.loop.settle()


def part_b_receive(job):
    """Corrupted frame fed to a real socket, then intact probes until one is delivered."""
    gen, name, frame, tier, idx = job
    s, e = covered_span(gen, frame)
    nbits = (e - s) * 8
    singles, doubles, bursts = patterns(nbits, "quick", idx)
    corner_bursts = [b for b in bursts if len(b) == 2 or b[-1] - b[0] in (2, 3)][:: 3]
    probe = corpus(gen)[3][1]
    n = 0
    # 'after': the intact frame itself has been received (and delivered) just before its damaged copy arrives -
    # whatever the client remembers about frames it has accepted must not stand in for checking this one
    cases = [(b, False) for b in singles + corner_bursts] + [(b, True) for b in singles[::5]] + \
            [(b, "after") for b in singles[-16:] + singles[:-16:7] + corner_bursts[-6:]]
    for bits, twice in cases:
        w = RxWorld(gen)
        bad = flip(frame, s, bits)
        t0 = w.net.live()[-1]
        if twice == "after":
            t0.peer_send(frame)
            w.loop.settle()
            if len(w.got) != 1:
                return n, f"at{gen} {name}: the intact frame was not delivered ({len(w.got)} messages)"
            w.got.clear()
            twice = False
        if twice:
            # a second damaged frame is already waiting when the re-established connection opens
            orig = w.net.on_open

            def again(t, orig=orig, bad=bad, w=w):
                w.net.on_open = orig
                t.peer_send(bad)
            w.net.on_open = again
        t0.peer_send(bad)
        w.loop.settle()
        n += 1
        in_len = any((s * 8 + k) // 8 in ((6, 7) if gen == 4 else (18, 19)) for k in bits)
        if w.got:
            if not in_len:
                return n, f"at{gen} {name}: frame with bits {bits} flipped was delivered to the subscriber as {type(w.got[0][1]).__name__}"
        fed = 0
        burst = 1
        delivered = False
        while fed < 70000 + 40 * len(probe):
            live = w.net.live()
            if not live:
                w.loop.run_until(w.loop.time() + 2.5)
                live = w.net.live()
                if not live:
                    return n, f"at{gen} {name} bits {bits}: no connection re-established"
            g0 = len(w.got)
            live[-1].peer_send(probe * burst)
            fed += len(probe) * burst
            burst = min(burst * 4, 256)
            w.loop.settle()
            if len(w.got) > g0 and len(w.net.conns) > 1:
                delivered = True
                break
            if len(w.got) > g0 and len(w.net.conns) == 1 and not in_len:
                return n, f"at{gen} {name} bits {bits}: a later frame was delivered without the connection having been reset"
            if len(w.got) > g0:
                delivered = True
                break
        if not delivered:
            return n, f"at{gen} {name} bits {bits}: no intact frame delivered within 70 kB after the corrupted one"
        if len(w.net.conns) > 1:
            if t0.closed_by != "client":
                return n, f"at{gen} {name} bits {bits}: the old connection was closed by {t0.closed_by}, not by the client"
    return n, None


def replay_input(rp):
    return rp.get("message")


def run(tier, seed, part=None):
    chk = runner.Check("C06", tier, seed, "model_checking")
    chk.trusted_base = ["bit-by-bit CRC-16/MODBUS (poly 0xA001, init 0xFFFF) checked against the 17 example frames of the vendor PDFs",
                        "pvmc.vloop / pvmc.simnet for the receive path"]
    chk.assumptions = ["the loop body of calculate() does not depend on the byte index (additionally checked with single-position "
                       "sweeps up to length 64); with that, equality on all (register, byte) transitions gives equality for all strings",
                       "bit flips inside the length field change the framing, so for those only recovery is required"]
    # Part A: the CRC register is a 65536-state machine with 256 inputs
    res = explorer.pool().map(part_a_shard, range(256), chunksize=4)
    calls = 0
    regs = 0
    for first, (n, nreg, msg) in enumerate(res):
        calls += n
        regs += nreg
        if msg:
            chk.violation(f"crc:calculate:first-byte-{first:02x}", msg, {"kind": "input", "module": "pvmc.props.c06", "message": msg})
    n_long, msg = part_a_long()
    if msg:
        chk.violation("crc:long-strings", msg, {"kind": "input", "module": "pvmc.props.c06", "message": msg})
    chk.counters["states"] = regs              # distinct registers reached after two bytes (65536 = all)
    chk.counters["transitions"] = 256 * 256 * 256 + 256 * 256 + 256
    chk.counters["executions"] = calls + n_long
    chk.cov["part_a"] = {"strings_checked": calls + n_long, "two_byte_registers_covered": regs,
                         "register_byte_transitions": 256 * 65536 if regs == 65536 else None}
    # Part A': the seam between header and payload, on the real send and receive paths
    fjobs = [(gen, lo, lo + 16) for gen in (4, 5) for lo in range(0, 256, 16)]
    nf = 0
    for job, (n, msg) in zip(fjobs, explorer.pool().map(part_a_framing, fjobs, chunksize=1)):
        nf += n
        if msg:
            chk.violation(f"at{job[0]}:frame-checksum-at-header-seam", msg, {"kind": "input", "module": "pvmc.props.c06", "message": msg})
    chk.cov["part_a_framing"] = {"frames_sent_and_received": nf, "header_register_states": 65536}
    chk.counters["executions"] += nf
    # Part B
    jobs = []
    for gen in (4, 5):
        for idx, (name, frame) in enumerate(corpus(gen)):
            jobs.append((gen, name, frame, tier, idx))
    nb = 0
    for job, (n, msg) in zip(jobs, explorer.pool().map(part_b_direct, jobs, chunksize=1)):
        nb += n
        if msg:
            chk.violation(f"at{job[0]}:validate-accepts-corruption:{job[1]}", msg, {"kind": "input", "module": "pvmc.props.c06", "message": msg})
    nr = 0
    for job, (n, msg) in zip(jobs, explorer.pool().map(part_b_receive, jobs, chunksize=1)):
        nr += n
        if msg:
            chk.violation(f"at{job[0]}:corrupted-frame-on-receive-path:{job[1]}", msg, {"kind": "input", "module": "pvmc.props.c06", "message": msg})
    chk.cov["part_b"] = {"frame_kinds": len(jobs), "patterns_validate": nb, "receive_path_runs": nr}
    chk.counters["executions"] += nb + nr
    chk.samples += [{"part": "A", "case": "every 1-, 2- and 3-byte string"},
                    {"part": "B", "case": "at5 zone-status frame, bits (17, 19, 20) flipped, then intact probes"}]
    return chk.finish()
