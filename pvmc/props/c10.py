"""C10 - the object model always shows the console's latest report (DESIGN §6 C10)."""
from __future__ import annotations

import itertools

from .. import apiworld, console, explorer, pubmodel, runner
from ..ref import at4, at5

POWER = {4: ["off", "on"], 5: ["off", "on", "away_off", "away_on", "sleep"]}
MODES = ["auto", "heat", "dry", "fan", "cool", "auto_heat", "auto_cool"]
FANS = {4: ["auto", "quiet", "low", "medium", "high", "powerful", "turbo"],
        5: ["auto", "quiet", "low", "medium", "high", "powerful", "turbo",
            "ia_quiet", "ia_low", "ia_medium", "ia_high", "ia_powerful", "ia_turbo"]}


def world(gen, auto=True):
    inst = console.default_installation(gen, 2, (2, 1))
    inst["acs"][1]["min_heat" if gen == 5 else "min"] = 12
    if gen == 5:
        inst["acs"][0].update({"min_cool": 17, "max_cool": 31, "min_heat": 15, "max_heat": 29})
    w = apiworld.ApiWorld(gen, inst, auto=auto)
    r = w.init_now(0.0)
    assert r and r[1] is True, r
    w.loop.settle()
    return w


def check_view(w, label):
    d = pubmodel.diff(pubmodel.expected_view(w.gen, w.inst, w.console.state), pubmodel.observed_view(w.at))
    if d:
        return f"{label}: {d[0]}" + (f" (+{len(d)-1} more)" if len(d) > 1 else "")
    if w.loop.exc_reports:
        return f"{label}: loop exception handler: {w.loop.exc_reports[:1]}"
    return None


def push(w, frame):
    w.console.send_raw(frame)
    w.loop.settle()


# ------------------------------------------------------------------------------- (i) single frames
def single_frames(gen):
    """Generator of (label, mutate(state) -> frame builder name)."""
    acs = []
    for p, m, f in itertools.product(POWER[gen], MODES, FANS[gen]):
        flags = itertools.product([False, True], repeat=4 if gen == 5 else 2)
        for fl in flags:
            d = {"power": p, "mode": m, "fan": f, "spill": fl[0], "timer": fl[1]}
            if gen == 5:
                d.update({"turbo": fl[2], "bypass": fl[3]})
            acs.append(d)
    return acs


def run_single(gen):
    """All single status frames; returns (n, violations[(sig, msg)])."""
    w = world(gen)
    c = w.console
    bad = []
    n = 0

    def step(label, sig, frame_fn):
        nonlocal n
        n += 1
        push(w, frame_fn())
        msg = check_view(w, label)
        if msg:
            bad.append((sig, msg))
            w.loop.exc_reports.clear()

    # AC status: full cross product of defined power x mode x fan x flags, on AC0 and AC1 alternately
    for i, d in enumerate(single_frames(gen)):
        a = i % 2
        c.state["ac"][a].update(d)
        step(f"at{gen} ac{a} status {d}", f"at{gen}:ac-status:mode={d['mode']}:fan={d['fan']}:power={d['power']}",
             lambda a=a: c.ac_status_frame(only=[a]))
    # set-points and temperatures over their whole raw ranges
    if gen == 4:
        for sp in range(0, 64):
            c.state["ac"][0]["setpoint"] = sp
            step(f"at4 ac0 setpoint {sp}", "at4:ac-status:setpoint", lambda: c.ac_status_frame(only=[0]))
        for raw in list(range(0, 2040, 7)) + [0, 1, 499, 500, 501, 780, 2039]:
            t = (raw - 500) / 10
            c.state["ac"][0]["temperature"] = t
            step(f"at4 ac0 temperature raw {raw}", "at4:ac-status:temperature", lambda: c.ac_status_frame(only=[0]))
            c.state["zone"][0]["temperature"] = t
            step(f"at4 zone0 temperature raw {raw}", "at4:zone-status:temperature", lambda: c.zone_status_frame(only=[0]))
    else:
        for raw in range(0, 251):
            c.state["ac"][0]["setpoint"] = (raw + 100) / 10
            step(f"at5 ac0 setpoint raw {raw}", "at5:ac-status:setpoint", lambda: c.ac_status_frame(only=[0]))
            c.state["zone"][0]["setpoint"] = (raw + 100) / 10
            step(f"at5 zone0 setpoint raw {raw}", "at5:zone-status:setpoint", lambda: c.zone_status_frame(only=[0]))
        for raw in list(range(0, 2001, 7)) + [0, 1, 499, 500, 501, 743, 2000]:
            t = (raw - 500) / 10
            c.state["ac"][0]["temperature"] = t
            step(f"at5 ac0 temperature raw {raw}", "at5:ac-status:temperature", lambda: c.ac_status_frame(only=[0]))
            c.state["zone"][0]["temperature"] = t
            step(f"at5 zone0 temperature raw {raw}", "at5:zone-status:temperature", lambda: c.zone_status_frame(only=[0]))
    # documented not-available sentinels
    c.state["zone"][0]["temperature"] = at4.ABSENT
    step(f"at{gen} zone0 temperature n/a", f"at{gen}:zone-status:temperature-na", lambda: c.zone_status_frame(only=[0]))
    if gen == 5:
        c.state["zone"][0]["setpoint"] = at4.ABSENT
        step("at5 zone0 setpoint invalid", "at5:zone-status:setpoint-na", lambda: c.zone_status_frame(only=[0]))
        c.state["zone"][0]["setpoint"] = 21.0
    c.state["zone"][0]["temperature"] = 21.5
    # zones: full product power x method x sensor x spill x battery x turbo support, percent 0..100
    for p, me, se, sp, bl, ts in itertools.product(["off", "on", "turbo"], ["percent", "temperature"], [False, True],
                                                   [False, True], [False, True], [False, True]):
        z = 2 if p == "turbo" else 0
        c.state["zone"][z].update({"power": p, "method": me, "sensor": se, "spill": sp, "battery_low": bl, "turbo_support": ts})
        step(f"at{gen} zone{z} {p}/{me}/sensor={se}/spill={sp}/low={bl}/turbo={ts}", f"at{gen}:zone-status:flags",
             lambda z=z: c.zone_status_frame(only=[z]))
    for pct in range(0, 101):
        c.state["zone"][1]["percent"] = pct
        step(f"at{gen} zone1 percent {pct}", f"at{gen}:zone-status:percent", lambda: c.zone_status_frame(only=[1]))
    # timers: disabled x hour x minute corners, each slot
    for which, dis, h, m in itertools.product(["on", "off"], [True, False], range(24), [0, 1, 30, 59]):
        c.state["timer"][0][which] = {"disabled": dis, "hour": h, "minute": m}
        step(f"at{gen} ac0 timer {which} {dis} {h}:{m}", f"at{gen}:timer-status", lambda: c.timer_status_frame())
    # the 'timer set' flag of the AC status and the timer record are independent reports: whatever the flag
    # does, the quick timers shown are those of the most recent timer status frame
    for a in (0, 1):
        c.state["timer"][a] = {"ac": a, "on": {"disabled": False, "hour": 7, "minute": 30}, "off": {"disabled": False, "hour": 22, "minute": 15}}
    step(f"at{gen} timers 07:30/22:15 reported", f"at{gen}:timer-status", lambda: c.timer_status_frame())
    for flag in (True, False, True, False):
        for a in (0, 1):
            c.state["ac"][a]["timer"] = flag
            step(f"at{gen} ac{a} status with timer flag {flag} after a timer report", f"at{gen}:timer-vs-status-flag",
                 lambda a=a: c.ac_status_frame(only=[a]))
    # error code zero / non-zero x error text present / absent
    # (the text only changes while the code is 0: the client learns the text by asking when the code changes)
    for text, code in itertools.product([None, "ER: FFFE", "E5"], [0, 1, 0xFFFE, 0, 37, 0]):
        c.state["error"][0] = text
        c.state["ac"][0]["error"] = code
        step(f"at{gen} ac0 error {code} text {text!r}", f"at{gen}:error-info", lambda: c.ac_status_frame(only=[0]))
    # details of an earlier, cleared error must not be shown for a later error whose details are not known yet
    c.state["error"][0] = "ER: old"
    c.state["ac"][0]["error"] = 5
    step(f"at{gen} ac0 error 5 with text", f"at{gen}:error-info", lambda: c.ac_status_frame(only=[0]))
    c.state["ac"][0]["error"] = 0
    step(f"at{gen} ac0 error cleared", f"at{gen}:error-info", lambda: c.ac_status_frame(only=[0]))
    c.answer_hook = lambda kind, fr, answers: [] if kind == "req-error" else answers     # console does not answer
    c.state["ac"][0]["error"] = 9
    c.state["error"][0] = None           # nothing has been reported for error 9
    step(f"at{gen} ac0 new error 9, details not yet reported", f"at{gen}:error-info:stale-details", lambda: c.ac_status_frame(only=[0]))
    c.answer_hook = None
    c.state["ac"][0]["error"] = 0
    step(f"at{gen} ac0 error cleared again", f"at{gen}:error-info", lambda: c.ac_status_frame(only=[0]))
    # console version / update sign
    for upd, vers in itertools.product([False, True], [["1.0.3"], ["1.2.3", "1.2.2"], ["9.9.9"]]):
        w.inst["update"], w.inst["versions"] = upd, vers
        step(f"at{gen} version {upd} {vers}", f"at{gen}:console-version", lambda: c.version_frame())
    return n, bad


# ------------------------------------------------------------------------------- (ii) histories
def menu(gen):
    """12 frames: each mutates the console state for the entities it carries and returns the frame."""
    def ac(a, variant):
        def f(w):
            st = w.console.state["ac"][a]
            st.update({"A": {"power": "on", "mode": "heat", "fan": "high", "setpoint": 21 if gen == 4 else 21.0, "error": 0},
                       "B": {"power": "off", "mode": "auto_cool", "fan": "low" if gen == 4 else "ia_turbo",
                             "setpoint": 26 if gen == 4 else 26.5, "error": 5}}[variant])
            return [w.console.ac_status_frame(only=[a])]
        return f

    def both_acs(w):
        w.console.state["ac"][0].update({"mode": "dry", "spill": True})
        w.console.state["ac"][1].update({"mode": "fan", "timer": True})
        return [w.console.ac_status_frame()]

    def zone(z, variant):
        def f(w):
            w.console.state["zone"][z].update({"A": {"power": "off", "percent": 35, "method": "percent"},
                                               "B": {"power": "on", "percent": 80, "method": "temperature", "spill": True}}[variant])
            return [w.console.zone_status_frame(only=[z])]
        return f

    def all_zones(w):
        for z in w.console.state["zone"].values():
            z["percent"] = (z["percent"] + 5) % 100
        return [w.console.zone_status_frame()]

    def timer(w):
        t = w.console.state["timer"][1]["on"]
        t.update({"disabled": not t["disabled"], "hour": 6, "minute": 45})
        return [w.console.timer_status_frame()]

    def err_text(w):
        w.console.state["error"][0] = "ER: 07" if w.console.state["error"][0] != "ER: 07" else "ER: 08"
        return [w.console.error_frame(0)]

    def version(w):
        w.inst["update"] = not w.inst["update"]
        return [w.console.version_frame()]

    def unknown_entities(w):
        c = w.console
        if gen == 4:
            a = c.fr(0x2D, at4.write_ac_status([dict(c.state["ac"][0], ac=3, mode="dry")]))
            z = c.fr(0x2B, at4.write_group_status([dict(c.state["zone"][0], group=12, percent=1)]))
        else:
            a = c.fr(0xC0, at5.write_ac_status([dict(c.state["ac"][0], ac=7, mode="dry")]))
            z = c.fr(0xC0, at5.write_zone_status([dict(c.state["zone"][0], zone=12, percent=1)]))
        return [a, z]

    def timer_flag(w):
        st = w.console.state["ac"][1]
        st["timer"] = not st["timer"]
        return [w.console.ac_status_frame(only=[1])]

    def reinit(w):
        # the application shuts the client down and initialises the same object again; the console answers the
        # handshake from its current state, and frames received afterwards count exactly as before
        w.spawn(w.at.shutdown())
        w.loop.run_until(w.loop.time() + 1.0)
        # while the client is away the installation moves on (zone 0 and AC 0 change at the wall panel)
        z0 = w.console.state["zone"][0]
        z0.update({"power": "on", "percent": 80, "method": "temperature", "spill": True} if z0["percent"] != 80 else
                  {"power": "off", "percent": 35, "method": "percent", "spill": False})
        a0 = w.console.state["ac"][0]
        a0["mode"] = "fan" if a0["mode"] != "fan" else "cool"
        w.init_result.clear()
        w.start_init()
        w.loop.run_until(w.loop.time() + 1.0)
        assert w.init_result and w.init_result[-1][:2] == ("returned", True), w.init_result
        return []

    def reinit_same(w):
        # the same, but nothing changed at the console meanwhile: the second life starts from the console's reports like the
        # first one did, not from anything the first life remembered
        w.spawn(w.at.shutdown())
        w.loop.run_until(w.loop.time() + 1.0)
        w.init_result.clear()
        w.start_init()
        w.loop.run_until(w.loop.time() + 1.0)
        assert w.init_result and w.init_result[-1][:2] == ("returned", True), w.init_result
        return []

    def repeat_last(w):
        return [w.console.ac_status_frame(), w.console.zone_status_frame()]

    return [("ac0-A", ac(0, "A")), ("ac0-B", ac(0, "B")), ("ac1-B", ac(1, "B")), ("both-acs", both_acs),
            ("zone0-A", zone(0, "A")), ("zone0-B", zone(0, "B")), ("zone2-B", zone(2, "B")), ("all-zones", all_zones),
            ("timer", timer), ("error-text", err_text), ("version", version), ("unknown-ids", unknown_entities),
            ("ac1-timer-flag", timer_flag), ("repeat-all", repeat_last), ("reinit", reinit), ("reinit-same", reinit_same)]


def run_history(job):
    gen, seq = job[:2]
    w = world(gen)
    m = menu(gen)
    if len(job) > 2:
        # 'batch': all frames of the history reach the client in ONE segment (the console state after each step is
        # what that step's frame reports); the getters are read at the end and equal the most recent report
        raw = b""
        for idx in seq:
            for fr in m[idx][1](w):
                raw += fr
        push(w, raw)
        msg = check_view(w, f"at{gen} history {[m[i][0] for i in seq]} received back to back in one segment")
        if msg:
            return (f"at{gen}:history-batch:{m[seq[-1]][0]}", msg, pubmodel.observed_view(w.at))
        return (None, None, "batch")
    for k, idx in enumerate(seq):
        name, fn = m[idx]
        for fr in fn(w):
            push(w, fr)
        msg = check_view(w, f"at{gen} history {[m[i][0] for i in seq[:k + 1]]}")
        if msg:
            return (f"at{gen}:history:{m[idx][0]}", msg, pubmodel.observed_view(w.at))
    import hashlib
    return (None, None, hashlib.blake2b(repr(sorted(pubmodel.observed_view(w.at).items())).encode(), digest_size=8).hexdigest())


def run_mode_walk(job):
    """Every sequence of reported modes for AC 0 (the getters are read after init and after every frame):
    what a getter says may depend on the current report only, never on which modes were seen before."""
    gen, seq = job
    w = world(gen)
    msg = check_view(w, f"at{gen} after init")
    if msg:
        return (f"at{gen}:mode-walk:init", msg)
    for k, mode in enumerate(seq):
        w.console.state["ac"][0]["mode"] = mode
        push(w, w.console.ac_status_frame(only=[0]))
        msg = check_view(w, f"at{gen} mode walk {list(seq[:k + 1])}")
        if msg:
            return (f"at{gen}:mode-walk:{mode}", msg)
    return (None, None)


def run_zoneless(gen):
    """An installation whose second air-conditioner owns no zones at all (a ducted unit without dampers): its status,
    timer and error frames count like anybody's."""
    inst = console.default_installation(gen, 2, (2, 0))
    w = apiworld.ApiWorld(gen, inst, auto=True)
    r = w.init_now(0.0)
    if not (r and r[1] is True):
        return 1, (f"at{gen}:zoneless:init", f"at{gen}: init() against an installation with a zone-less AC: {r}")
    w.loop.settle()
    n = 0
    msg = check_view(w, f"at{gen} zone-less AC after init")
    if msg:
        return 1, (f"at{gen}:zoneless:init", msg)
    c = w.console
    for k, mode in enumerate(MODES):
        c.state["ac"][1].update({"mode": mode, "power": "on" if k % 2 else "off", "error": 4 if k % 3 == 0 else 0})
        c.state["error"][1] = "ER: 04" if k % 3 == 0 else None
        for step in ("ac", "timer", "all-acs"):
            if step == "timer":
                c.state["timer"][1]["on"].update({"disabled": bool(k % 2), "hour": (5 + k) % 24, "minute": 10})
            push(w, {"ac": lambda: c.ac_status_frame(only=[1]), "timer": c.timer_status_frame, "all-acs": c.ac_status_frame}[step]())
            n += 1
            msg = check_view(w, f"at{gen} zone-less AC 1, step {k} ({mode})")
            if msg:
                return n, (f"at{gen}:zoneless:{mode}", msg)
    return n, None


def run_two_clients(gen):
    """Two clients of the same generation in one process, each with its own console and installation: what one of
    them is told never shows in the other (the model belongs to the object, not to the class or the module)."""
    wa = world(gen)
    instb = console.default_installation(gen, 1, (3,))
    wb = apiworld.ApiWorld(gen, instb, auto=True)
    r = wb.init_now(0.0)
    if not (r and r[1] is True):
        return 1, (f"at{gen}:two-clients:init", f"at{gen}: second client in the same process: init() -> {r}")
    wb.loop.settle()
    n = 0
    m = menu(gen)
    for k in range(2 * len(m)):
        w, other, tag = (wa, wb, "A") if k % 2 == 0 else (wb, wa, "B")
        name, fn = m[(k // 2) % len(m)]
        if name in ("reinit", "reinit-same", "unknown-ids") or (w is wb and name in ("ac1-B", "both-acs", "timer", "ac1-timer-flag", "zone2-B")):
            continue
        try:
            frames = fn(w)
        except KeyError:
            continue               # an entity the smaller installation does not have
        for fr in frames:
            push(w, fr)
        n += 1
        for x, t in ((w, tag), (other, "the other client")):
            msg = check_view(x, f"at{gen} two clients side by side, frame {name} sent to client {tag}: view of {t}")
            if msg:
                return n, (f"at{gen}:two-clients:{name}", msg)
    return n, None


def run_initial_error(gen):
    """The installation is already in trouble when the client connects (an AC reports an error code, and the console
    answers the error-information request the client sends in the middle of its handshake): after init() the getters
    show code and text like after any other frame, and a repeated text changes nothing."""
    inst = console.default_installation(gen, 2, (2, 1))
    st = console.default_state(inst)
    st["ac"][1].update({"error": 5})
    st["error"][1] = "ER: 05"
    w = apiworld.ApiWorld(gen, inst, st, auto=True)
    r = w.init_now(0.0)
    if not (r and r[1] is True):
        return 1, (f"at{gen}:initial-error:init", f"at{gen}: init() against an installation with an AC in error: {r}")
    w.loop.settle()
    msg = check_view(w, f"at{gen} after init() against an AC that was already in error")
    if msg:
        return 1, (f"at{gen}:initial-error:view", msg)
    push(w, w.console.error_frame(1))
    push(w, w.console.ac_status_frame())
    msg = check_view(w, f"at{gen} AC in error at connect, then the same error text and status again")
    if msg:
        return 3, (f"at{gen}:initial-error:repeat", msg)
    return 3, None


def replay_input(rp):
    if rp["what"] == "initial-error":
        return (run_initial_error(rp["gen"])[1] or (None, None))[1]
    if rp["what"] == "two-clients":
        return (run_two_clients(rp["gen"])[1] or (None, None))[1]
    if rp["what"] == "zoneless":
        return (run_zoneless(rp["gen"])[1] or (None, None))[1]
    if rp["what"] == "mode-walk":
        return run_mode_walk((rp["gen"], tuple(rp["seq"])))[1]
    if rp["what"] == "single":
        n, bad = run_single(rp["gen"])
        for sig, msg in bad:
            if sig == rp["sig"]:
                return msg
        return None
    sig, msg, _ = run_history((rp["gen"], tuple(rp["seq"])) + (("batch",) if rp.get("batch") else ()))
    return msg


def run(tier, seed, part=None):
    chk = runner.Check("C10", tier, seed, "model_checking")
    chk.trusted_base = ["pvmc.console.SimConsole / pvmc.ref writers (vendor documents)", "pvmc.pubmodel (docstrings of pyairtouch/api.py)",
                        "pvmc.vloop, pvmc.simnet"]
    chk.assumptions = ["not-available AC temperature/set-point are not judged (non-Optional public type)",
                       "limits for auto/dry/fan modes: heat pair, cool pair or their union are all accepted"]
    depth = 3 if tier == "quick" else 4
    total = 0
    outcomes = set()
    for gen in (4, 5):
        n, bad = run_single(gen)
        total += n
        chk.parts.append({"scenario": f"at{gen}/single-frames", "executions": n})
        for sig, msg in bad:
            chk.violation(sig, msg, {"kind": "input", "module": "pvmc.props.c10", "what": "single", "gen": gen, "sig": sig})
        m = menu(gen)
        seqs = [s for d in range(1, depth + 1) for s in itertools.product(range(len(m)), repeat=d)]
        ri = [x[0] for x in m].index("reinit")
        rs = [x[0] for x in m].index("reinit-same")
        jobs = [(gen, s) for s in seqs] + [(gen, s, "batch") for s in seqs if len(s) > 1 and ri not in s and rs not in s]
        res = explorer.pool().map(run_history, jobs, chunksize=32)
        for (g, s, *mode), (sig, msg, snap) in zip(jobs, res):
            total += len(s)
            outcomes.add(snap if isinstance(snap, str) else "violation")
            if sig:
                chk.violation(sig, msg, {"kind": "input", "module": "pvmc.props.c10", "what": "history", "gen": gen, "seq": list(s), "batch": bool(mode)})
        ne, viol = run_initial_error(gen)
        total += ne
        chk.parts.append({"scenario": f"at{gen}/ac-in-error-at-connect", "frames": ne})
        if viol:
            chk.violation(viol[0], viol[1], {"kind": "input", "module": "pvmc.props.c10", "what": "initial-error", "gen": gen})
        nt, viol = run_two_clients(gen)
        total += nt
        chk.parts.append({"scenario": f"at{gen}/two-clients-side-by-side", "frames": nt})
        if viol:
            chk.violation(viol[0], viol[1], {"kind": "input", "module": "pvmc.props.c10", "what": "two-clients", "gen": gen})
        nz, viol = run_zoneless(gen)
        total += nz
        chk.parts.append({"scenario": f"at{gen}/zone-less-ac", "frames": nz})
        if viol:
            chk.violation(viol[0], viol[1], {"kind": "input", "module": "pvmc.props.c10", "what": "zoneless", "gen": gen})
        walks = [(gen, s) for d in range(1, depth + 1) for s in itertools.product(MODES, repeat=d)]
        for (g, sq), (sig, msg) in zip(walks, explorer.pool().map(run_mode_walk, walks, chunksize=16)):
            total += len(sq)
            if sig:
                chk.violation(sig, msg, {"kind": "input", "module": "pvmc.props.c10", "what": "mode-walk", "gen": gen, "seq": list(sq)})
        chk.parts.append({"scenario": f"at{gen}/mode-walks", "depth": depth, "modes": MODES, "sequences": len(walks)})
        chk.parts.append({"scenario": f"at{gen}/histories", "depth": depth, "menu": [x[0] for x in m], "sequences": len(seqs)})
        chk.samples.append({"gen": gen, "history": [m[i][0] for i in seqs[len(seqs) // 2]]})
    chk.counters["states"] = len(outcomes)
    chk.counters["transitions"] = total
    chk.counters["executions"] = total
    chk.outcomes.update({o: 1 for o in outcomes})
    return chk.finish({"rule": "transitions = frames injected into a real initialised client; states = distinct public snapshots at the end of a history"})
