"""C04 - commands on the wire mean what the vendor protocol says (DESIGN §6 C04)."""
from __future__ import annotations

import itertools

import datetime

from .. import console, explorer, runner
from ..ref.at4 import KEEP
from . import cmdcommon as cc


def grid(lo, hi, step=0.05):
    n = int(round((hi - lo) / step))
    return [round(lo + i * step, 2) for i in range(n + 1)]


def installation(gen, variant):
    if gen == 4:
        inst = console.default_installation(4, 4, (4, 4, 4, 4))
    else:
        inst = console.default_installation(5, 16, tuple(1 for _ in range(16)))
    if variant == "limits-low":
        for a in inst["acs"]:
            if gen == 4:
                a.update({"min": 10, "max": 11})
            else:
                a.update({"min_cool": 10, "max_cool": 11, "min_heat": 10, "max_heat": 10})
    elif variant == "limits-high":
        for a in inst["acs"]:
            if gen == 4:
                a.update({"min": 31, "max": 32})
            else:
                a.update({"min_cool": 34, "max_cool": 35, "min_heat": 35, "max_heat": 35})
    elif variant == "one-mode":
        for a in inst["acs"]:
            a["modes"] = {"cool"}
            a["fans"] = {"low"}
    return inst


def run_installation(job):
    """Returns (n_calls, [(signature, message)])."""
    import pyairtouch
    gen, variant, full = job
    inst = installation(gen, variant)
    w = cc.initialised(gen, inst)
    A = pyairtouch
    bad = []
    n = 0
    seen = set()
    timers_reported = {a: {"on": cc.timer_state(None), "off": cc.timer_state(None)} for a in w.console.state["timer"]}

    def judge(rec, frames, expect_kind, matcher, label, sig, ext=False):
        nonlocal n
        n += 1
        if rec["status"] == "ValueError":
            return          # refused locally: C11's subject
        if rec["status"] != "returned":
            bad.append((sig + ":raised", f"{label}: {rec['status']} {rec.get('msg', '')}"))
            return
        cmds = [f for f in frames if f[2] != "req-error"]
        if len(cmds) != 1:
            bad.append((sig + ":frame-count", f"{label}: {len(cmds)} command frames for one accepted call ({[f[2] for f in frames]})"))
            return
        fr = cmds[0][3]
        p = cc.envelope_problem(gen, fr, ext)
        if p:
            bad.append((sig + ":envelope", f"{label}: {p}"))
            return
        try:
            kind, reading = cc.read_command(gen, fr)
        except Exception as e:  # noqa: BLE001
            bad.append((sig + ":unreadable", f"{label}: reference codec rejects the frame: {e}"))
            return
        if kind != expect_kind:
            bad.append((sig + ":kind", f"{label}: frame is a {kind}, expected {expect_kind}"))
            return
        seen.add((label, fr.data))
        p = matcher(reading)
        if p:
            bad.append((sig, f"{label}: {p} [frame data {fr.data.hex()}]"))

    acs = sorted(w.at.air_conditioners, key=lambda a: a.ac_id)
    for ac in acs:
        a = ac.ac_id
        heavy = full == "all" or (full and a in (0, acs[-1].ac_id))
        for pc in A.AcPowerControl:
            rec, fr = cc.issue(w, lambda: ac.set_power(pc))
            judge(rec, fr, "ac-control", lambda r: cc.match_ac_control(gen, r, cc.ac_intent(a, power=cc.PC[pc.name])),
                  f"at{gen} ac{a}.set_power({pc.name})", f"at{gen}:ac.set_power:{pc.name}")
        for m in A.AcMode:
            for on in (False, True):
                rec, fr = cc.issue(w, lambda: ac.set_mode(m, power_on=on))
                judge(rec, fr, "ac-control",
                      lambda r: cc.match_ac_control(gen, r, cc.ac_intent(a, mode=m.name.lower(), power="on" if on else KEEP)),
                      f"at{gen} ac{a}.set_mode({m.name}, power_on={on})", f"at{gen}:ac.set_mode:{m.name}:{on}")
        for f in A.AcFanSpeed:
            rec, fr = cc.issue(w, lambda: ac.set_fan_speed(f))
            judge(rec, fr, "ac-control", lambda r: cc.match_ac_control(gen, r, cc.ac_intent(a, fan=f.name.lower())),
                  f"at{gen} ac{a}.set_fan_speed({f.name})", f"at{gen}:ac.set_fan_speed:{f.name}")
        lo, hi, res = ac.min_target_temperature, ac.max_target_temperature, (1.0 if gen == 4 else 0.1)
        temps = grid(0.0, 45.0) if heavy else [lo - 1, lo - 0.5, lo, lo + 0.05, (lo + hi) / 2 + 0.05, hi - 0.05, hi, hi + 0.5, hi + 7]
        for t in temps:
            allowed = cc.clamp_round(t, lo, hi, res)
            rec, fr = cc.issue(w, lambda: ac.set_target_temperature(t))

            def m_sp(r, allowed=allowed, t=t):
                base = cc.match_ac_control(gen, r, cc.ac_intent(a, setpoint=r["setpoint"] if r["setpoint_ctl"] == "set" else 0))
                if base:
                    return base
                if round(r["setpoint"], 6) not in allowed:
                    return f"requested {t} with limits [{lo}, {hi}]: frame sets {r['setpoint']}, admissible {sorted(allowed)}"
                return None
            judge(rec, fr, "ac-control", m_sp, f"at{gen} ac{a}.set_target_temperature({t})", f"at{gen}:ac.set_target_temperature")
        hours = range(0, 48) if heavy else (0, 1, 23)
        for tt in A.AcTimerType:
            for h in hours:
                for mi in (0, 1, 30, 59):
                    d = datetime.timedelta(hours=h, minutes=mi, seconds=29 if mi == 1 else 0)
                    rec, fr = cc.issue(w, lambda: ac.set_quick_timer(tt, d))

                    def m_qt(r, h=h, mi=mi, tt=tt):
                        want_type = "on" if tt.name == "ON_TIMER" else "off"
                        if r["ac"] != a or r["type"] != want_type or r["minutes"] != mi:
                            return f"quick timer frame {r}, call means ac {a} {want_type} {h}h{mi}m"
                        if r["hours"] not in ({h} if h < 24 else {h, h % 24}):
                            return f"quick timer hours {r['hours']} for a duration of {h} h"
                        return None
                    judge(rec, fr, "quick-timer", m_qt, f"at{gen} ac{a}.set_quick_timer({tt.name}, {h}h{mi}m)",
                          f"at{gen}:ac.set_quick_timer:duration", ext=True)
            which = "on" if tt.name == "ON_TIMER" else "off"
            for hm in ((0, 0), (0, 1), (7, 30), (12, 0), (23, 59)):
                rec, fr = cc.issue(w, lambda: ac.set_quick_timer(tt, datetime.time(hour=hm[0], minute=hm[1], second=40)))
                judge(rec, fr, "timer-control",
                      lambda r: cc.match_timer_control(gen, r, a, which, cc.timer_state(hm), timers_reported[a]["off" if which == "on" else "on"]),
                      f"at{gen} ac{a}.set_quick_timer({tt.name}, {hm[0]:02d}:{hm[1]:02d})", f"at{gen}:ac.set_quick_timer:time")
            rec, fr = cc.issue(w, lambda: ac.clear_quick_timer(tt))
            judge(rec, fr, "timer-control",
                  lambda r: cc.match_timer_control(gen, r, a, which, cc.timer_state(None), timers_reported[a]["off" if which == "on" else "on"]),
                  f"at{gen} ac{a}.clear_quick_timer({tt.name})", f"at{gen}:ac.clear_quick_timer")
        for z in ac.zones:
            zid = z.zone_id
            zheavy = full == "all" or (full and zid in (0, 15))
            for ps in A.ZonePowerState:
                rec, fr = cc.issue(w, lambda: z.set_power(ps))
                judge(rec, fr, "zone-control", lambda r: cc.match_zone_control(gen, r, cc.zone_intent(zid, power=ps.name.lower())),
                      f"at{gen} zone{zid}.set_power({ps.name})", f"at{gen}:zone.set_power:{ps.name}")
            zt = (grid(0.0, 45.0) if gen == 4 else grid(10.0, 35.0)) if zheavy else [10.0, 17.45, 17.5, 22.05, 29.95, 35.0]
            for t in zt:
                res = 1.0 if gen == 4 else 0.1
                allowed = cc.clamp_round(t, -1000, 1000, res)
                rec, fr = cc.issue(w, lambda: z.set_target_temperature(t))

                def m_zt(r, allowed=allowed, t=t):
                    if r["setting"] != "setpoint":
                        return f"setting {r['setting']!r}, expected setpoint"
                    base = cc.match_zone_control(gen, r, cc.zone_intent(zid, setting="setpoint", value=r["value"], methods=(KEEP, "temperature")))
                    if base:
                        return base
                    if round(r["value"], 6) not in allowed:
                        return f"requested {t}: frame sets {r['value']}, admissible {sorted(allowed)}"
                    return None
                judge(rec, fr, "zone-control", m_zt, f"at{gen} zone{zid}.set_target_temperature({t})", f"at{gen}:zone.set_target_temperature")
            for p in (range(0, 101) if zheavy else (0, 1, 50, 99, 100)):
                rec, fr = cc.issue(w, lambda: z.set_damper_percentage(p))
                judge(rec, fr, "zone-control",
                      lambda r: cc.match_zone_control(gen, r, cc.zone_intent(zid, setting="percent", value=p, methods=(KEEP, "percent"))),
                      f"at{gen} zone{zid}.set_damper_percentage({p})", f"at{gen}:zone.set_damper_percentage")
    rec, fr = cc.issue(w, w.at.check_for_updates)
    judge(rec, fr, "version-request", lambda r: None, f"at{gen} check_for_updates()", f"at{gen}:check_for_updates", ext=True)
    # deferred transmission: the same calls issued while the link is down are queued and go out after the
    # re-connection, in between the client's own refresh requests; they must still mean what was asked
    ac = acs[-1]
    a = ac.ac_id
    z = ac.zones[0] if ac.zones else None
    deferred = [(lambda: ac.set_power(A.AcPowerControl.TURN_ON), "ac-control",
                 lambda r: cc.match_ac_control(gen, r, cc.ac_intent(a, power="on")), f"ac{a}.set_power(TURN_ON)"),
                (lambda: ac.set_mode(A.AcMode.COOL), "ac-control",
                 lambda r: cc.match_ac_control(gen, r, cc.ac_intent(a, mode="cool")), f"ac{a}.set_mode(COOL)"),
                (lambda: ac.clear_quick_timer(A.AcTimerType.ON_TIMER), "timer-control",
                 lambda r: cc.match_timer_control(gen, r, a, "on", cc.timer_state(None), timers_reported[a]["off"]), f"ac{a}.clear_quick_timer(ON)")]
    if z is not None:
        zid = z.zone_id
        deferred += [(lambda: z.set_power(A.ZonePowerState.ON), "zone-control",
                      lambda r: cc.match_zone_control(gen, r, cc.zone_intent(zid, power="on")), f"zone{zid}.set_power(ON)"),
                     (lambda: z.set_damper_percentage(35), "zone-control",
                      lambda r: cc.match_zone_control(gen, r, cc.zone_intent(zid, setting="percent", value=35, methods=(KEEP, "percent"))),
                      f"zone{zid}.set_damper_percentage(35)")]
    for fn, kind, matcher, label in deferred:
        w.net.auto = None
        w.net.live()[-1].peer_eof()
        w.loop.settle()
        n0 = len(w.console.requests)
        rec = w.call(fn, label)
        w.loop.settle()
        w.net.auto = "accept"
        w.net.resolve_all(True)
        w.loop.settle()
        frames = [r for r in w.console.requests[n0:] if not r[2].startswith("req-")]
        if variant == "one-mode" and rec["status"] == "ValueError":
            continue
        judge(rec, frames, kind, matcher, f"at{gen} {label} issued while the link was down", f"at{gen}:deferred:{label.split('.')[1].split('(')[0]}")
    # several calls during ONE outage, including the same call repeated: every accepted call is one frame, and the
    # frames arrive in the order of the calls (all 3-sequences over on/off for the AC and its first zone)
    alpha = [("ac-on", lambda: ac.set_power(A.AcPowerControl.TURN_ON), "ac-control",
              lambda r: cc.match_ac_control(gen, r, cc.ac_intent(a, power="on"))),
             ("ac-off", lambda: ac.set_power(A.AcPowerControl.TURN_OFF), "ac-control",
              lambda r: cc.match_ac_control(gen, r, cc.ac_intent(a, power="off")))]
    if z is not None:
        alpha += [("zone-on", lambda: z.set_power(A.ZonePowerState.ON), "zone-control",
                   lambda r: cc.match_zone_control(gen, r, cc.zone_intent(zid, power="on"))),
                  ("zone-off", lambda: z.set_power(A.ZonePowerState.OFF), "zone-control",
                   lambda r: cc.match_zone_control(gen, r, cc.zone_intent(zid, power="off")))]
    # (two timer commands with different times: their frames share an encoder, and on a stalled link the first is
    # still in the transport's hands when the second is encoded)
    import datetime as _dt
    for nm, tt, hh in (("timer-on-7", A.AcTimerType.ON_TIMER, 7), ("timer-on-9", A.AcTimerType.ON_TIMER, 9)):
        alpha.append((nm, lambda tt=tt, hh=hh: ac.set_quick_timer(tt, _dt.time(hour=hh, minute=15)), "timer-control",
                      lambda r, hh=hh: (None if any(x["ac"] == a and x["on"] == {"disabled": False, "hour": hh, "minute": 15} for x in r)
                                        else f"no record for ac {a} with the on-timer at {hh}:15 in {r}")))
    for mode, seq in itertools.product(("outage", "burst", "stalled"), itertools.product(range(len(alpha)), repeat=3)):
        if mode == "outage":
            w.net.auto = None
            w.net.live()[-1].peer_eof()
            w.loop.settle()
        elif mode == "stalled":
            # the console's window is closed: every call's write parks in drain() until it reopens
            w.net.live()[-1].pause()
            w.loop.settle()
        n0 = len(w.console.requests)
        # (all three calls are started in the same loop iteration: concurrent tasks of the application)
        recs = [w.call(alpha[i][1], alpha[i][0]) for i in seq]
        w.loop.settle()
        if mode == "outage":
            w.net.auto = "accept"
            w.net.resolve_all(True)
        elif mode == "stalled":
            w.net.live()[-1].resume()
        w.loop.settle()
        n += 3
        names = [alpha[i][0] for i in seq]
        label = f"at{gen} calls {names} issued " + {"outage": "during one outage", "burst": "concurrently on a live link",
                                                     "stalled": "concurrently while the console's window is closed"}[mode]
        frames = [r for r in w.console.requests[n0:] if not r[2].startswith("req-")]
        if any(r["status"] != "returned" for r in recs):
            bad.append((f"at{gen}:outage-sequence:rejected", f"{label}: call statuses {[r['status'] for r in recs]}"))
            continue
        if len(frames) != 3:
            bad.append((f"at{gen}:outage-sequence:frame-count", f"{label}: {len(frames)} command frames reached the console"))
            continue
        for i, f in zip(seq, frames):
            try:
                kind, reading = cc.read_command(gen, f[3])
            except Exception as e:  # noqa: BLE001
                bad.append((f"at{gen}:outage-sequence:unreadable", f"{label}: {e}"))
                break
            pr = "wrong kind " + kind if kind != alpha[i][2] else alpha[i][3](reading)
            if pr:
                bad.append((f"at{gen}:outage-sequence:order-or-meaning", f"{label}: frame for {alpha[i][0]}: {pr}"))
                break
            seen.add((label, f[3].data))
    # the only frames ever seen must be the ones accounted for above (nothing unsolicited from the client)
    if w.loop.exc_reports:
        bad.append((f"at{gen}:loop-exception", f"{w.loop.exc_reports[:1]}"))
    return n, bad, len(seen)


def replay_input(rp):
    n, bad, _k = run_installation((rp["gen"], rp["variant"], rp["full"]))
    for sig, msg in bad:
        if sig == rp["sig"]:
            return msg
    return None


def run(tier, seed, part=None):
    chk = runner.Check("C04", tier, seed, "exploration")
    chk.trusted_base = ["pvmc.ref (vendor documents AT4 v1.6 / AT5 v1.2; undocumented timer messages from the pinned test vectors)",
                        "intent table pvmc.props.cmdcommon (docstrings of pyairtouch/api.py)", "pvmc.console.SimConsole"]
    chk.assumptions = ["zone set-points are enumerated inside the representable range of the protocol (AT5 10.0-35.0)",
                       "a zone set-point/damper request may carry the control method its setting implies or 'keep'",
                       "quick timer durations >= 24 h: hours or hours mod 24 are both accepted"]
    variants = ["all", "limits-low", "limits-high", "one-mode"]
    jobs = [(gen, v, True if tier == "quick" else "all") for gen in (4, 5) for v in variants]
    res = explorer.pool().map(run_installation, jobs, chunksize=1)
    total = 0
    sigs = set()
    judged = 0
    for job, (n, bad, k) in zip(jobs, res):
        total += n
        judged += k
        chk.parts.append({"scenario": f"at{job[0]}/{job[1]}", "calls": n, "frames_read_and_compared": k, "full_grids": job[2]})
        for sig, msg in bad:
            chk.violation(sig, msg, {"kind": "input", "module": "pvmc.props.c04", "gen": job[0], "variant": job[1], "full": job[2], "sig": sig})
    chk.samples += [{"call": "ac0.set_target_temperature(t) for t in 0.00..45.00 step 0.05", "gen": 4},
                    {"call": "zone15.set_damper_percentage(p) for p in 0..100", "gen": 5}]
    return chk.finish({"evaluations": total, "distinct_nontrivial": judged, "exhaustive": True,
                       "rule": "one evaluation = one public API call on a real initialised client (AC 0..3 / 0..15, zones 0..15, every "
                               "enum argument, 0.05 degC grid, damper 0..100, timers); distinct_nontrivial = number of distinct (call, frame payload) "
                               "pairs, counted with a set, where the call was accepted and its frame was read by the reference codec and compared with the intent"})
