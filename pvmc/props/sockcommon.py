"""Socket-level harness shared by C01, C02, C16: real AirTouchSocket on SimNet + reference monitor.

The monitor is a pure function of (calls accepted by send(), simulated network log).  It shares no
code with the library: expected frames are built by pvmc.ref.framing from payload bytes written by
hand from the vendor documents.
"""
from __future__ import annotations

from .. import explorer, worlds
from ..ref import framing
from ..vloop import EPS

POLICIES = {"I": (2, 30.0), "N": (0, 30.0), "C": (0, 1.0)}   # retries, lifetime (docs/design.md table)


def catalogue(gen):
    """[(name, message object, type byte, to address, reference payload bytes)] - pairwise distinct."""
    out = []
    if gen == 4:
        import pyairtouch.at4.comms.x1F_ext as ext
        import pyairtouch.at4.comms.x1FFF11_ac_ability as abil
        import pyairtouch.at4.comms.x1FFF20_quick_timer as qt
        import pyairtouch.at4.comms.x2A_group_ctrl as gc
        import pyairtouch.at4.comms.x2B_group_status as gs
        import pyairtouch.at4.comms.x2C_ac_ctrl as ac
        import pyairtouch.at4.comms.x36_ac_timer_ctrl as tc
        import datetime
        out.append(("group1-on", gc.GroupControlMessage(1, gc.GroupPowerControl.TURN_ON, gc.GroupControlMethod.UNCHANGED, None),
                    0x2A, 0x80, bytes([1, 0x03, 0, 0])))
        out.append(("ability-req", ext.ExtendedMessage(abil.AcAbilityRequest("ALL")), 0x1F, 0x90, bytes([0xFF, 0x11])))
        out.append(("group-status-req", gs.GroupStatusRequest(), 0x2B, 0x80, b""))
        st = tc.AcTimerState
        out.append(("timer-ctl", tc.AcTimerControlMessage([tc.AcTimerControlData(1, st(False, 7, 30), st(True, 0, 0))]),
                    0x36, 0x80, bytes(8) + bytes([7, 30, 0x80, 0, 0, 0, 0, 0]) + bytes(16)))
        out.append(("ac0-cool", ac.AcControlMessage(0, ac.AcPowerControl.UNCHANGED, ac.AcModeControl.COOL,
                                                    ac.AcFanSpeedControl.UNCHANGED, None), 0x2C, 0x80, bytes([0x00, 0x4F, 0x3F, 0])))
        out.append(("quick-timer", ext.ExtendedMessage(qt.QuickTimerMessage(0, qt.TimerType.ON_TIMER, datetime.timedelta(hours=1, minutes=5))),
                    0x1F, 0x90, bytes([0xFF, 0x20, 0, 1, 1, 5])))

        def fam(i):
            g, p = i % 16, i // 16
            return (f"damper{i}", gc.GroupControlMessage(g, gc.GroupPowerControl.UNCHANGED, gc.GroupControlMethod.DAMPER,
                                                         gc.GroupDamperControl(p)), 0x2A, 0x80, bytes([g, 0x90, p, 0]))
    else:
        import pyairtouch.at5.comms.x1F_ext as ext
        import pyairtouch.at5.comms.x1FFF11_ac_ability as abil
        import pyairtouch.at5.comms.x1FFF49_quick_timer as qt
        import pyairtouch.at5.comms.xC0_ctrl_status as c0
        import pyairtouch.at5.comms.xC020_zone_ctrl as zc
        import pyairtouch.at5.comms.xC021_zone_status as zs
        import pyairtouch.at5.comms.xC022_ac_ctrl as ac
        import pyairtouch.at5.comms.xC032_ac_timer_ctrl as tc
        import datetime
        W = c0.ControlStatusMessage
        out.append(("zone1-on", W(zc.ZoneControlMessage([zc.ZoneControlData(1, zc.ZonePowerControl.TURN_ON, None)])),
                    0xC0, 0x80, bytes([0x20, 0, 0, 0, 0, 4, 0, 1, 1, 0x03, 0xFF, 0])))
        out.append(("ability-req", ext.ExtendedMessage(abil.AcAbilityRequest("ALL")), 0x1F, 0x90, bytes([0xFF, 0x11])))
        out.append(("zone-status-req", W(zs.ZoneStatusRequest()), 0xC0, 0x80, bytes([0x21, 0, 0, 0, 0, 0, 0, 0])))
        st = tc.AcTimerState
        out.append(("timer-ctl", W(tc.AcTimerControlMessage([tc.AcTimerControlData(1, st(False, 7, 30), st(True, 0, 0)),
                                                             tc.AcTimerControlData(2, st(True, 0, 0), st(False, 23, 59))])),
                    0xC0, 0x80, bytes([0x32, 0, 0, 0, 0, 9, 0, 2]) + bytes([1, 7, 30, 0x80, 0, 0, 0, 0, 0]) + bytes([2, 0x80, 0, 23, 59, 0, 0, 0, 0])))
        out.append(("ac0-cool", W(ac.AcControlMessage([ac.AcControlData(0, ac.AcPowerControl.UNCHANGED, ac.AcModeControl.COOL,
                                                                        ac.AcFanSpeedControl.UNCHANGED, None)])),
                    0xC0, 0x80, bytes([0x22, 0, 0, 0, 0, 4, 0, 1, 0x00, 0x4F, 0x00, 0xFF])))
        out.append(("quick-timer", ext.ExtendedMessage(qt.QuickTimerMessage(0, qt.TimerType.ON_TIMER, datetime.timedelta(hours=1, minutes=5))),
                    0x1F, 0x90, bytes([0xFF, 0x49, 0, 1, 1, 5])))

        def fam(i):
            z, p = i % 16, i // 16
            return (f"damper{i}", W(zc.ZoneControlMessage([zc.ZoneControlData(z, zc.ZonePowerControl.UNCHANGED, zc.ZoneDamperControl(p))])),
                    0xC0, 0x80, bytes([0x20, 0, 0, 0, 0, 4, 0, 1, z, 0x80, p, 0]))
    return out, fam


class SockWorld(worlds.World):
    """Real socket + reference bookkeeping.  Subclasses define the action menu."""

    def __init__(self, params):
        super().__init__()
        import pyairtouch.comms.socket as S
        self.S = S
        self.p = params
        self.gen = params["gen"]
        self.reg = worlds.fresh_registry(self.gen)
        self.cat, self.fam = catalogue(self.gen)
        self.sock = S.AirTouchSocket(self.loop, "console", 9000 + self.gen, self.reg)
        self._policies = {}
        self.calls = []        # every send() call: dict(idx, name, key, policy, t, status)
        self.delivered = []
        self.roots = [self.sock]
        if params.get("open", True):
            self.spawn(self.sock.open_socket())

    # --- driver --------------------------------------------------------------------------------
    def policy(self, code):
        # one policy object per kind and world, shared by all sends - as the library's own callers share the
        # module-level RETRY_* constants
        if code not in self._policies:
            r, life = POLICIES[code]
            self._policies[code] = self.S.RetryPolicy(max_retries=r, max_lifetime=life)
        return self._policies[code]

    def submit(self, entry, code):
        name, msg, typ, to, payload = entry
        rec = {"idx": len(self.calls), "name": name, "key": (typ, to, payload), "policy": code,
               "t": self.loop.time(), "status": "pending", "retries": POLICIES[code][0],
               "life": POLICIES[code][1]}
        self.calls.append(rec)
        self.spawn(self._send(msg, code, rec))
        return rec

    async def _send(self, msg, code, rec):
        S = self.S
        try:
            await self.sock.send(msg, self.policy(code))
            if rec["status"] == "pending":
                rec["status"] = "returned"
        except S.QueueOverflowError:
            rec["status"] = "overflow"
        except S.NotOpenError:
            rec["status"] = "notopen"
        except Exception as e:  # noqa: BLE001
            rec["status"] = "raised:" + type(e).__name__

    def accepted(self):
        """Calls the client accepted for sending (did not raise overflow / not-open).

        A call still 'pending' (suspended inside send) has been enqueued already: the queue append
        happens synchronously before the first await of send_with_header."""
        return [c for c in self.calls if c["status"] in ("pending", "returned")]

    # --- the wire, as seen by the console ---------------------------------------------------------
    def wire(self):
        """Per connection: frames parsed by the reference framer from successfully written bytes,
        each with the virtual time of its first byte.  Returns (frames, problems)."""
        problems = []
        frames = []
        for t in self.net.conns:
            chunks = [(e[0], e[3], e[1]) for e in self.net.log
                      if e[1] in ("write", "write_fail") and e[2] == t.cid]
            stream = b"".join(c[1] for c in chunks if c[2] == "write")
            failed = any(c[2] == "write_fail" for c in chunks)
            frs, residue, err = framing.split(self.gen, stream)
            if err:
                problems.append(f"conn {t.cid}: stream does not parse: {err}")
            if residue and not failed:
                problems.append(f"conn {t.cid}: {len(residue)} residual bytes after the last complete frame "
                                f"(frames interleaved or truncated): {residue.hex()}")
            # time of each frame = time of the chunk containing its first byte
            offs = []
            pos = 0
            for (tm, data, kind) in chunks:
                if kind == "write":
                    offs.append((pos, tm))
                    pos += len(data)
            pos = 0
            for fr in frs:
                tm = max(o[1] for o in offs if o[0] <= pos)
                frames.append({"cid": t.cid, "t": tm, "fr": fr, "complete": True})
                pos += len(fr.raw)
            if residue and failed:
                frames.append({"cid": t.cid, "t": max((o[1] for o in offs if o[0] <= pos), default=0.0),
                               "fr": None, "partial": residue, "complete": False})
            # a frame whose very first chunk failed never shows up in 'stream': record the attempt
            for (tm, data, kind) in chunks:
                if kind == "write_fail":
                    frames.append({"cid": t.cid, "t": tm, "fr": None, "failed_chunk": data, "complete": False})
        frames.sort(key=lambda f: (f["t"], f["cid"]))
        return frames, problems

    def conn_intervals(self):
        """[(cid, open time, end time or None)] - end = close/abort as seen in the log."""
        out = []
        for t in self.net.conns:
            end = None
            for e in self.net.log:
                if e[1] in ("close", "abort") and e[2] == t.cid:
                    end = e[0]
                    break
            out.append((t.cid, t.opened_at, end))
        return out

    def wire_history(self):
        """Residual state of the oracle: which frame attempts have been seen so far, per connection, in
        order (header chunks identify the frame through the packet id).  Two states may only be merged
        if the monitor owes / has seen the same things - the implementation state alone does not say
        whether a message that is no longer queued was transmitted or lost."""
        hl = 8 if self.gen == 4 else 20
        off = 4 if self.gen == 4 else 16
        now = self.loop.time()
        out = []
        for e in self.net.log:
            if e[1] in ("write", "write_fail", "write_after_loss") and len(e[3]) == hl and e[3][:2] == b"\x55\x55":
                out.append((e[2], e[1][6:8], e[3][off], round(e[0] - now, 6)))
        return tuple(out)

    def fp_extra(self):
        return (worlds.net_state(self.net), len(self.calls),
                tuple((c["idx"], c["status"], c["policy"], round(c["t"] - self.loop.time(), 6)) for c in self.calls),
                self.wire_history(), tuple(round(t.opened_at - self.loop.time(), 6) for t in self.net.conns))

    def outcome(self):
        fr, pb = self.wire()
        return repr(([c["status"] for c in self.calls], [(f["cid"], f["fr"].pid if f["fr"] else None) for f in fr], len(pb)))[:300]


def match_frames(world, frames):
    """Map complete frames to accepted calls by (type, to, payload).  Returns (pairs, unmatched)."""
    by_key = {}
    for c in world.calls:
        by_key.setdefault(c["key"], []).append(c)
    pairs = []
    unmatched = []
    seen = {}
    for f in frames:
        fr = f["fr"]
        if fr is None:
            continue
        key = (fr.typ, fr.to, fr.data)
        lst = by_key.get(key)
        if not lst:
            unmatched.append(f)
        elif len(lst) == 1:
            pairs.append((f, lst[0]))
        else:
            # the same message submitted several times: the n-th frame with these bytes belongs to the n-th
            # accepted call that submitted them (a surplus frame is pinned on the last one and shows as a duplicate)
            acc = [c for c in lst if c["status"] in ("pending", "returned")] or lst
            n = seen.get(key, 0)
            seen[key] = n + 1
            pairs.append((f, acc[min(n, len(acc) - 1)]))
    return pairs, unmatched
