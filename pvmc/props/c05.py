"""C05 - status frames are interpreted as the vendor protocol defines (DESIGN §6 C05)."""
from __future__ import annotations

import itertools

from .. import explorer, libview, runner, worlds
from ..ref import at4, at5
from ..ref.at4 import ABSENT, UNSPEC, Malformed

# fields whose decoded type can be absent (Optional in the library's message classes)
OPTIONAL = {("zone-status", "temperature"), ("zone-status", "setpoint"), ("error", "text")}


class Layout:
    def __init__(self, name, gen, typ, size, bases, wrap, read, kind, ext=False):
        self.name, self.gen, self.typ, self.size, self.bases = name, gen, typ, size, bases
        self.wrap, self.read, self.kind, self.ext = wrap, read, kind, ext


def _c0(sub):
    def wrap(recs, stride=None):
        rl = stride if stride is not None else (len(recs[0]) if recs else 0)
        recs = [r + bytes(rl - len(r)) for r in recs]
        return at5.c0(sub, b"", recs, rl=rl if recs else 0)
    return wrap


def _plain(recs, stride=None):
    return b"".join(recs)


def _ext(sub):
    def wrap(recs, stride=None):
        return bytes([sub >> 8, sub & 0xFF]) + b"".join(recs)
    return wrap


def _read_c0(fn):
    def rd(data):
        sub, normal, rl, rc, rest = at5.split_c0(data)
        return fn(normal, rl, rc, rest)
    return rd


def _read_ext(fn):
    def rd(data):
        sub, p = at4.split_ext(data)
        return fn(p)
    return rd


H = bytes.fromhex
LAYOUTS = [
    Layout("at4-group-status", 4, 0x2B, 6, [H("41e41a806180"), H("406400 00ff00".replace(" ", "")), H("c3b25f80fff0")], _plain, at4.read_group_status, "zone-status"),
    Layout("at4-ac-status", 4, 0x2D, 8, [H("40421a0061800000"), H("01001a006180fffe"), H("4296df00ff001234")], _plain, at4.read_ac_status, "ac-status"),
    Layout("at4-timer-status", 4, 0x37, 8, [H("071e800000000000"), H("8000173b00000000"), H("9f3f9f3fffffffff")], _plain, at4.read_timer_slots, "timer-status"),
    Layout("at5-zone-status", 5, 0xC0, 8, [H("4080968002e70000"), H("0164ff0007ff0000"), H("c3e4fa8007d003ff")], _c0(0x21), _read_c0(at5.read_zone_status), "zone-status"),
    Layout("at5-ac-status", 5, 0xC0, 8, [H("101278c002da0000"), H("014264c002e40000"), H("5e9efacf07d01234")], _c0(0x23), _read_c0(at5.read_ac_status), "ac-status"),
    Layout("at5-timer-status", 5, 0xC0, 9, [H("00071e800000000000"), H("018000173b00000000"), H("0f9f3f9f3fffffffff")], _c0(0x33), _read_c0(at5.read_timer_records), "timer-status"),
]


def lib_decode(gen, typ, data):
    """Decode through the registry (wrapper decoders included), as the receive path does."""
    reg = worlds.registry(gen)
    if gen == 4:
        from pyairtouch.at4.comms.hdr import At4Header as Hdr
    else:
        from pyairtouch.at5.comms.hdr import At5Header as Hdr
    hdr = Hdr(to_address=0xB0, from_address=0x90 if typ == 0x1F else 0x80, packet_id=1, message_id=typ, message_length=len(data))
    res = reg.get_decoder(typ).decode(data, hdr)
    res.assert_complete()
    return libview.view(gen, res.message)


def compare(kind, reading, seen, stats):
    """-> problem or None.  reading: reference (list of dicts / dict); seen: library view."""
    if isinstance(reading, list):
        if len(reading) != len(seen):
            return f"{len(seen)} records decoded, reference reads {len(reading)}"
        for r, s in zip(reading, seen):
            p = compare_rec(kind, r, s, stats)
            if p:
                return p
        return None
    if kind == "names" and isinstance(reading, dict) and isinstance(seen, dict):
        # a map from zone number to name: the entries of THIS payload, no more and no fewer
        extra = sorted(set(seen) - set(reading))
        if extra:
            return f"decoded names for zones {extra[:6]} that this payload does not mention (payload has {sorted(reading)[:8]})"
    return compare_rec(kind, reading, seen, stats)


def _eq(a, b):
    if isinstance(a, float) or isinstance(b, float):
        try:
            return abs(float(a) - float(b)) < 1e-9
        except (TypeError, ValueError):
            return False
    return a == b


def compare_rec(kind, r, s, stats):
    no_sensor = kind == "zone-status" and not r.get("sensor", True)
    for k, exp in r.items():
        if k in ("following", "byte4", "byte1_hi", "raw_value", "setpoint_raw"):
            continue
        if exp is UNSPEC:
            continue
        got = s.get(k, "<missing>")
        if got == "<missing>":
            continue
        if exp is ABSENT:
            if (kind, k) in OPTIONAL:
                if got is not None and got is not ABSENT:
                    return f"{k}: documented not-available sentinel decoded as {got!r}"
            else:
                stats["na_unrepresentable"] = stats.get("na_unrepresentable", 0) + 1
            continue
        if no_sensor and k in ("temperature", "setpoint") and got is None:
            continue        # public contract: None for zones without a sensor
        if isinstance(exp, dict):
            if exp != got:
                return f"{k}: decoded {got!r}, vendor reading {exp!r}"
            continue
        if not _eq(exp, got):
            return f"{k}: decoded {got!r}, vendor reading {exp!r}"
    return None


def fully_defined(reading):
    recs = reading if isinstance(reading, list) else [reading]
    for r in recs:
        for v in (r.values() if isinstance(r, dict) else []):
            if v is ABSENT or v is UNSPEC:
                return False
            for b in ([v] if isinstance(v, bytes) else (v if isinstance(v, list) and all(isinstance(x, bytes) for x in v) else [])):
                try:
                    b.decode("utf-8")       # the documents do not define a text encoding: undecodable text is not a defined value
                except UnicodeDecodeError:
                    return False
    return True


def judge(lay, data, stats):
    """One payload: reference reading vs library decode.  -> problem or None."""
    try:
        reading = lay.read(data)
        ref_ok = True
    except Malformed:
        ref_ok = False
        reading = None
    try:
        kind, seen = lib_decode(lay.gen, lay.typ, data)
        lib_ok = True
    except Exception as e:  # noqa: BLE001 - any exception = rejected
        lib_ok = False
        err = e
    stats["evaluations"] = stats.get("evaluations", 0) + 1
    if not ref_ok:
        # malformed under the documents: rejecting is right; decoding to *something* is only
        # tolerated for request shapes (empty payloads) - anything else is a different reading
        if lib_ok and not kind.startswith("request") and kind != "unsupported":
            stats["decoded_malformed"] = stats.get("decoded_malformed", 0) + 1
        return None
    if not lib_ok:
        if fully_defined(reading) and not isinstance(err, NotImplementedError):
            return f"rejected ({type(err).__name__}: {err}) although every field has a defined value: {reading}"
        stats["rejected"] = stats.get("rejected", 0) + 1
        return None
    if kind.startswith("request"):
        if reading in ([], {}):
            return None
        return f"decoded as {kind} but the payload carries data: {reading}"
    if kind != lay.kind:
        return f"decoded as {kind}, expected {lay.kind}"
    stats["compared"] = stats.get("compared", 0) + 1
    return compare(kind, reading, seen, stats)


# ------------------------------------------------------------------------------------------ enumeration
def sweep_layout(job):
    li, mode, tier = job
    if mode == "bytes-debug":
        # the same single-byte sweep with the library's loggers at DEBUG: what a payload decodes to is not a
        # function of the log level
        with worlds.debug_logging():
            return sweep_layout((li, "bytes", tier))
    lay = LAYOUTS[li]
    stats = {}
    bad = []

    def run(data, label):
        p = judge(lay, data, stats)
        if p and len(bad) < 5:
            bad.append((f"{lay.name}:{label}", f"{lay.name} payload {data.hex()}: {p}"))
    bases = lay.bases if tier == "thorough" else lay.bases[:2]
    if mode == "bytes":
        for base in lay.bases:
            for pos in range(lay.size):
                for v in range(256):
                    rec = base[:pos] + bytes([v]) + base[pos + 1:]
                    run(lay.wrap([rec]), f"byte{pos + 1}")
        # record counts 0..16
        for n in range(0, 17):
            recs = []
            for i in range(n):
                b = bytearray(lay.bases[i % 3])
                if lay.name.endswith("timer-status") and lay.gen == 5:
                    b[0] = i
                elif not lay.name.startswith("at4-timer"):
                    b[0] = (b[0] & 0xC0) | i if "zone" in lay.name or "group" in lay.name else ((b[0] & 0xF0) | i if lay.gen == 5 else (b[0] & 0xC0) | (i % 4))
                recs.append(bytes(b))
            run(lay.wrap(recs), f"count{n}")
        # AT5: announced strides from the known layout to +8
        if lay.gen == 5:
            for stride in range(lay.size - 2, lay.size + 9):
                for n in (1, 2, 3):
                    try:
                        data = lay.wrap([lay.bases[i % 3] for i in range(n)], stride=stride) if stride >= lay.size else \
                            at5.c0(LAYOUTS[li].wrap([b""])[0], b"", [lay.bases[i % 3][:stride] for i in range(n)], rl=stride)
                    except Exception:  # noqa: BLE001
                        continue
                    run(data, f"stride{stride}")
    else:
        pos = mode[1]
        for base in bases:
            for v in range(65536):
                rec = base[:pos] + bytes([v >> 8, v & 0xFF]) + base[pos + 2:]
                run(lay.wrap([rec]), f"bytes{pos + 1}-{pos + 2}")
    return stats, bad


def _fresh_decode(gen):
    """A registry with brand-new decoder objects (the registry module is executed again)."""
    import importlib
    reg_mod = importlib.import_module(f"pyairtouch.at{gen}.comms.registry")
    importlib.reload(reg_mod)

    def dec(typ, data):
        try:
            return ("ok", repr(lib_decode(gen, typ, data)))
        except Exception as e:  # noqa: BLE001
            return ("rejected", type(e).__name__)
    return dec


def history_independence(job):
    """What a payload decodes to does not depend on what the same decoder objects were given before: every
    sequence of three payloads from a sample (valid ones, rejected ones, another stride) decodes, one after the
    other on one registry, to what each decodes to on a brand-new registry."""
    li = job
    lay = LAYOUTS[li]
    sample = [lay.wrap([b]) for b in lay.bases]
    sample.append(lay.wrap([lay.bases[1], lay.bases[0]]))
    if lay.gen == 5:
        sample.append(lay.wrap([lay.bases[0], lay.bases[2]], stride=lay.size + 2))
    # rejected payloads: single-byte variations of the first base record the library refuses, and a short one
    dec = _fresh_decode(lay.gen)
    rejected = []
    for pos in range(lay.size):
        for v in (0xFF, 0x7F, 0xE0, 0x0F):
            data = lay.wrap([lay.bases[0][:pos] + bytes([v]) + lay.bases[0][pos + 1:]])
            if dec(lay.typ, data)[0] == "rejected" and data not in rejected:
                rejected.append(data)
                break
        if len(rejected) >= 2:
            break
    short = lay.wrap([lay.bases[0]])[:-1]
    sample += rejected + [short]
    alone = {}
    for d in sample:
        alone[d] = _fresh_decode(lay.gen)(lay.typ, d)
    n = 0
    for seq in itertools.product(sample, repeat=3):
        dec = _fresh_decode(lay.gen)
        for i, d in enumerate(seq):
            n += 1
            got = dec(lay.typ, d)
            if got != alone[d]:
                return n, len(sample), (f"{lay.name}:history", f"{lay.name}: payload {d.hex()} decodes to {alone[d][0]} {alone[d][1][:120]} on a new "
                                        f"decoder, but after {[x.hex() for x in seq[:i]]} on the same decoder it gives {got[0]} {got[1][:120]}")
    return n, len(sample), None


def cross_layout_independence(gen):
    """The same across the layouts of one generation (they share wrapper decoders and helpers): every sequence of three
    payloads drawn from ALL status layouts - with the same announced stride for different record kinds where the
    format has strides - decodes to what each decodes to on a brand-new registry."""
    lays = [l for l in LAYOUTS if l.gen == gen]
    sample = []
    for lay in lays:
        sample.append((lay, lay.wrap([lay.bases[0]])))
        sample.append((lay, lay.wrap([lay.bases[2], lay.bases[1]])))
        if gen == 5:
            for stride in (10, 12):
                if stride >= lay.size:
                    sample.append((lay, lay.wrap([lay.bases[1], lay.bases[2]], stride=stride)))
    # judged against the vendor reading at every step (a "brand-new registry" is no baseline here: state shared by
    # classes or helper modules survives the re-creation of the decoder objects)
    n = 0
    if gen == 5:
        # whatever is remembered per announced stride is remembered once per process: every ORDER in which the record
        # kinds can meet a stride for the first time gets a stride of its own
        for stride, order in zip(range(30, 30 + 6), itertools.permutations(lays)):
            prev = []
            for lay in order:
                d = lay.wrap([lay.bases[2], lay.bases[1]], stride=stride)
                n += 1
                pr = judge(lay, d, {})
                if pr:
                    return n, len(sample), (f"at{gen}:cross-layout-history", f"{lay.name} payload {d.hex()} decoded after {prev}: {pr}")
                prev.append((lay.name, d.hex()))
    for seq in itertools.product(range(len(sample)), repeat=3):
        if len({sample[i][0].name for i in seq}) < 2:
            continue                    # single-layout sequences are history_independence's
        _fresh_decode(gen)
        for k, i in enumerate(seq):
            lay, d = sample[i]
            n += 1
            pr = judge(lay, d, {})
            if pr:
                prev = [(sample[j][0].name, sample[j][1].hex()) for j in seq[:k]]
                return n, len(sample), (f"at{gen}:cross-layout-history", f"{lay.name} payload {d.hex()} decoded after {prev}: {pr}")
    return n, len(sample), None


STR_ALPHABET = [b"", b"A", b"Living", b"Zone 1", "Café".encode(), "客厅".encode(), "\U0001f600".encode(),
                b"12345678", b"1234567890ABCDEF", b"a\x00b", b"\xff\xfe", b"ER: FFFE"]


def sweep_ext(job):
    """Extended (0x1F) answers: ability, names, error, version."""
    gen, tier = job
    stats = {}
    bad = []

    def run(lay, data, label):
        p = judge(lay, data, stats)
        if p and len(bad) < 8:
            bad.append((f"{lay.name}:{label}", f"{lay.name} payload {data.hex()}: {p}"))
    if gen == 4:
        abil = Layout("at4-ability", 4, 0x1F, 24, [], _ext(0xFF11), _read_ext(at4.read_ability), "ability")
        names = Layout("at4-names", 4, 0x1F, 9, [], _ext(0xFF12), _read_ext(at4.read_group_names), "names")
        err = Layout("at4-error", 4, 0x1F, 0, [], _ext(0xFF10), _read_ext(at4.read_error), "error")
        ver = Layout("at4-version", 4, 0x1F, 0, [], _ext(0xFF30), _read_ext(lambda p: at4.read_version(p, b"|")), "version")
        base = bytes([0, 24]) + b"UNIT".ljust(16, b"\0") + bytes([0, 4, 0x17, 0x1D, 17, 31, 0x07, 0x00])
        base22 = bytes([1, 22]) + b"Second AC".ljust(16, b"\0") + bytes([4, 2, 0x1F, 0x7F, 16, 30])
    else:
        abil = Layout("at5-ability", 5, 0x1F, 26, [], _ext(0xFF11), _read_ext(at5.read_ability), "ability")
        names = Layout("at5-names", 5, 0x1F, 0, [], _ext(0xFF13), _read_ext(at5.read_zone_names), "names")
        err = Layout("at5-error", 5, 0x1F, 0, [], _ext(0xFF10), _read_ext(at4.read_error), "error")
        ver = Layout("at5-version", 5, 0x1F, 0, [], _ext(0xFF30), _read_ext(lambda p: at4.read_version(p, b",")), "version")
        base = bytes([0, 24]) + b"UNIT".ljust(16, b"\0") + bytes([0, 4, 0x17, 0x1D, 16, 31, 18, 31])
        base22 = bytes([3, 24]) + b"Second AC".ljust(16, b"\0") + bytes([4, 2, 0x1F, 0xFF, 17, 30, 15, 29])
    # ability: every byte of the record over all values, on two bases; 1..4 records; every bitmap bit
    for b0 in (base, base22):
        for pos in range(len(b0)):
            if pos == 1:
                continue            # following length: swept separately below
            for v in range(256):
                rec = b0[:pos] + bytes([v]) + b0[pos + 1:]
                run(abil, abil.wrap([rec]), f"byte{pos + 1}")
    for n in range(1, 5):
        for combo in ([base] * n, [base22] * n, [base, base22] * (n // 2) + [base] * (n % 2)):
            recs = [bytes([i]) + r[1:] for i, r in enumerate(combo)]
            run(abil, abil.wrap(recs), f"records{n}")
    for fl in range(0, 40):
        rec = bytes([0, fl]) + base[2:]
        run(abil, abil.wrap([rec]), f"following{fl}")
        run(abil, abil.wrap([rec[:2 + fl]]), f"following{fl}-exact")
    if gen == 5:
        # first record announces that more than 24 bytes belong to it
        for fl in (50, 76):
            n_rec = (fl + 2) // 26
            data = abil.wrap([bytes([0, fl]) + base[2:]] + [bytes([i + 1]) + base22[1:] for i in range(n_rec - 1)])
            p = judge(abil, data, stats)
            if p:
                bad.append(("at5-ability:following-length-ignored", f"at5-ability payload {data.hex()}: {p}"))
    if gen == 4:
        for bit in range(16):
            rec = base[:24] + bytes([(1 << bit) & 0xFF, (1 << bit) >> 8])
            run(abil, abil.wrap([rec]), f"group-bit{bit}")
    # names
    for nrec in range(0, 17 if gen == 5 else 17):
        if gen == 4:
            recs = [bytes([i]) + STR_ALPHABET[i % len(STR_ALPHABET)][:8].ljust(8, b"\0") for i in range(nrec)]
        else:
            recs = [bytes([i, len(STR_ALPHABET[i % len(STR_ALPHABET)])]) + STR_ALPHABET[i % len(STR_ALPHABET)] for i in range(nrec)]
        run(names, names.wrap(recs), f"count{nrec}")
    for s in STR_ALPHABET:
        for zid in (0, 5, 15, 255):
            if gen == 4:
                for cut in range(0, 9):
                    run(names, names.wrap([bytes([zid]) + s[:cut].ljust(8, b"\0")]), "string")
            else:
                run(names, names.wrap([bytes([zid, len(s)]) + s]), "string")
                run(names, names.wrap([bytes([zid, len(s) + 1]) + s]), "length+1")
                if s:
                    run(names, names.wrap([bytes([zid, len(s) - 1]) + s]), "length-1")
    # error info and version
    for s in STR_ALPHABET:
        for ac in (0, 1, 3, 15):
            run(err, err.wrap([bytes([ac, len(s)]) + s]), "error")
            run(err, err.wrap([bytes([ac, len(s) + 2]) + s]), "error-length+2")
        for upd in (0, 1, 2, 255):
            sep = b"|" if gen == 4 else b","
            for vs in ([s], [s, b"1.0.3"], [b"1.2.3", s, b"x"]):
                txt = sep.join(vs)
                run(ver, ver.wrap([bytes([upd, len(txt)]) + txt]), "version")
    return stats, bad


def replay_input(rp):
    lay = next((x for x in LAYOUTS if x.name == rp["layout"]), None)
    if lay is None:
        return rp.get("message")
    if rp.get("debug"):
        with worlds.debug_logging():
            return judge(lay, bytes.fromhex(rp["data"]), {})
    return judge(lay, bytes.fromhex(rp["data"]), {})


def run(tier, seed, part=None):
    chk = runner.Check("C05", tier, seed, "exploration")
    chk.trusted_base = ["pvmc.ref readers written from the vendor PDFs (checked against the printed examples by the selftest)",
                        "AT4 0x37 / AT5 0x33 timer layouts: pinned test vectors (undocumented messages)",
                        "pvmc.libview (renders library objects in the reference vocabulary)"]
    chk.assumptions = ["a field the vendor marks 'not available' whose decoded type cannot be absent (AC temperature/set-point, "
                       "AC power/mode/fan codes) is only counted (na_unrepresentable), a rejection is accepted there",
                       "zones without a sensor may report None for temperature and set-point (public contract)"]
    jobs = []
    for li, lay in enumerate(LAYOUTS):
        jobs.append((li, "bytes", tier))
        jobs.append((li, "bytes-debug", tier))
        for pos in range(lay.size - 1):
            jobs.append((li, ("pair", pos), tier))
    res = explorer.pool().map(sweep_layout, jobs, chunksize=1)
    total = {}
    for job, (stats, bad) in zip(jobs, res):
        for k, v in stats.items():
            total[k] = total.get(k, 0) + v
        for sig, msg in bad:
            data = msg.split("payload ")[1].split(":")[0]
            dbg = job[1] == "bytes-debug"
            chk.violation(sig + (":debug-logging" if dbg else ""), msg + (" [library loggers at DEBUG]" if dbg else ""),
                          {"kind": "input", "module": "pvmc.props.c05", "layout": LAYOUTS[job[0]].name, "data": data, "debug": dbg})
    hres = explorer.pool().map(history_independence, list(range(len(LAYOUTS))), chunksize=1)
    for li, (n, k, viol) in enumerate(hres):
        total["evaluations"] = total.get("evaluations", 0) + n
        total["history_triples"] = total.get("history_triples", 0) + k ** 3
        if viol:
            chk.violation(viol[0], viol[1], {"kind": "input", "module": "pvmc.props.c05", "layout": "history", "message": viol[1]})
    for gen, (n, k, viol) in zip((4, 5), explorer.pool().map(cross_layout_independence, [4, 5], chunksize=1)):
        total["evaluations"] = total.get("evaluations", 0) + n
        total["cross_layout_sample"] = total.get("cross_layout_sample", 0) + k
        if viol:
            chk.violation(viol[0], viol[1], {"kind": "input", "module": "pvmc.props.c05", "layout": "history", "message": viol[1]})
    for (gen, (stats, bad)) in zip((4, 5), explorer.pool().map(sweep_ext, [(4, tier), (5, tier)], chunksize=1)):
        for k, v in stats.items():
            total[k] = total.get(k, 0) + v
        for sig, msg in bad:
            chk.violation(sig, msg, {"kind": "input", "module": "pvmc.props.c05", "layout": "ext", "message": msg})
    chk.samples += [{"layout": "at4-group-status", "payload": "41e41a806180", "sweep": "bytes 5-6 over all 65536 values"},
                    {"layout": "at5-ac-status", "stride": "8..18 with 1..3 records"}]
    chk.cov["detail"] = total
    return chk.finish({"evaluations": total.get("evaluations", 0), "distinct_nontrivial": total.get("compared", 0), "exhaustive": True,
                       "rule": "one evaluation = one payload decoded by the library (through the wrapper decoders) and read by the "
                               "reference; payloads are distinct by construction (each field byte over 0..255 x 3 base records, each "
                               "adjacent byte pair over 0..65535, counts 0..16, strides, strings); non-trivial = both sides produced a "
                               "reading and the fields were compared"})
