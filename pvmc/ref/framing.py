"""Reference framing, written from the vendor documents only (imports nothing from pyairtouch).

AT4 (v1.6 p.6):  55 55 | to from id type len16 | data | crc16
AT5 (v1.2 p.6):  55 55 55 AA | to from id type len16 | data | crc16      (documented part)
AT5 outer wrapper (docs/design.md recording): 55 55 55 AB 00 00 | L16 | L16 | <documented part>,
    L = 10 + len(data) + 2.
CRC-16/MODBUS, bit by bit (poly 0xA001 reflected, init 0xFFFF), over to..data, high byte first.
"""
from __future__ import annotations

ADDR_CONSOLE = 0x80
ADDR_CONSOLE_EXT = 0x90
ADDR_CLIENT = 0xB0


def crc16(data: bytes) -> int:
    reg = 0xFFFF
    for b in data:
        reg ^= b
        for _ in range(8):
            if reg & 1:
                reg = (reg >> 1) ^ 0xA001
            else:
                reg >>= 1
    return reg


def crc_bytes(data: bytes) -> bytes:
    c = crc16(data)
    return bytes([c >> 8, c & 0xFF])


def body(to, frm, pid, typ, data: bytes) -> bytes:
    return bytes([to, frm, pid, typ, len(data) >> 8, len(data) & 0xFF]) + bytes(data)


def at4_frame(to, frm, pid, typ, data: bytes) -> bytes:
    b = body(to, frm, pid, typ, data)
    return b"\x55\x55" + b + crc_bytes(b)


def at5_frame(to, frm, pid, typ, data: bytes) -> bytes:
    b = body(to, frm, pid, typ, data)
    n = 10 + len(data) + 2
    outer = b"\x55\x55\x55\xab\x00\x00" + bytes([n >> 8, n & 0xFF]) * 2
    return outer + b"\x55\x55\x55\xaa" + b + crc_bytes(b)


def frame(gen, to, frm, pid, typ, data):
    return at4_frame(to, frm, pid, typ, data) if gen == 4 else at5_frame(to, frm, pid, typ, data)


class Frame(dict):
    __getattr__ = dict.get


def split(gen: int, stream: bytes):
    """Split a byte stream into frames.  Returns (frames, residue, error).

    Each frame: to, frm, pid, typ, data, crc_ok, raw, (AT5) outer_ok.
    Stops at the first malformed prefix (error string set) or when bytes run out
    (residue = incomplete tail).
    """
    frames = []
    i = 0
    n = len(stream)
    while i < n:
        start = i
        if gen == 5:
            if n - i < 10:
                return frames, stream[start:], None
            if stream[i:i + 4] != b"\x55\x55\x55\xab":
                return frames, stream[start:], f"bad outer prefix at {i}: {stream[i:i+4].hex()}"
            pad = stream[i + 4:i + 6]
            l1 = (stream[i + 6] << 8) | stream[i + 7]
            l2 = (stream[i + 8] << 8) | stream[i + 9]
            i += 10
            if n - i < 4:
                return frames, stream[start:], None
            if stream[i:i + 4] != b"\x55\x55\x55\xaa":
                return frames, stream[start:], f"bad inner prefix at {i}: {stream[i:i+4].hex()}"
            i += 4
        else:
            if n - i < 2:
                return frames, stream[start:], None
            if stream[i:i + 2] != b"\x55\x55":
                return frames, stream[start:], f"bad prefix at {i}: {stream[i:i+2].hex()}"
            i += 2
        if n - i < 6:
            return frames, stream[start:], None
        to, frm, pid, typ = stream[i], stream[i + 1], stream[i + 2], stream[i + 3]
        ln = (stream[i + 4] << 8) | stream[i + 5]
        if n - i < 6 + ln + 2:
            return frames, stream[start:], None
        data = bytes(stream[i + 6:i + 6 + ln])
        crc = bytes(stream[i + 6 + ln:i + 8 + ln])
        covered = bytes(stream[i:i + 6 + ln])
        fr = Frame(to=to, frm=frm, pid=pid, typ=typ, data=data, crc=crc,
                   crc_ok=(crc == crc_bytes(covered)), raw=bytes(stream[start:i + 8 + ln]))
        if gen == 5:
            fr["outer_ok"] = (pad == b"\x00\x00" and l1 == l2 == 10 + ln + 2)
        frames.append(fr)
        i += 8 + ln
    return frames, b"", None
