"""Reference reading/writing of AirTouch 4 records, from the v1.6 document only.

Citations: spec/airtouch4_v1.6.extract.txt page markers (p.N).  Imports nothing from
pyairtouch.  Every field reads to a plain value, or one of

    ABSENT  documented "not available / invalid" sentinel
    KEEP    control codes documented as "other: keep"
    UNSPEC  "NOT USED" bits or codes the document does not define
"""
from __future__ import annotations

ABSENT = "<absent>"
KEEP = "keep"
UNSPEC = "<unspecified>"


class Malformed(Exception):
    """The payload does not have the shape the document describes."""


# ----------------------------------------------------------------------------- 0x2A p.7
_SETTING = {0: KEEP, 2: "dec", 3: "inc", 4: "percent", 5: "setpoint"}
_METHOD = {0: KEEP, 1: "change", 2: "percent", 3: "temperature"}
_GPOWER = {0: KEEP, 1: "next", 2: "off", 3: "on", 5: "turbo"}


def read_group_control(d: bytes):
    if len(d) != 4:
        raise Malformed("0x2A: 4 bytes data")
    s = _SETTING.get(d[1] >> 5, UNSPEC)
    value = d[2] if s in ("percent", "setpoint") else None
    return {"group": d[0], "setting": s, "value": value, "method": _METHOD[(d[1] >> 3) & 3],
            "power": _GPOWER.get(d[1] & 7, UNSPEC), "byte4": d[3]}


# ----------------------------------------------------------------------------- 0x2B p.8
_GSTATE = {0: "off", 1: "on", 3: "turbo"}


def temp11(b5, b6):
    """Byte5 + bits8-6 of byte6: 11-bit VALUE, temperature = (VALUE-500)/10; byte5=0xFF: n/a."""
    if b5 == 0xFF:
        return ABSENT
    return (((b5 << 3) | (b6 >> 5)) - 500) / 10


def read_group_status(d: bytes):
    if len(d) % 6:
        raise Malformed("0x2B: 6 bytes per group")
    out = []
    for i in range(0, len(d), 6):
        b1, b2, b3, b4, b5, b6 = d[i:i + 6]
        out.append({
            "group": b1 & 0x3F,
            "power": _GSTATE.get(b1 >> 6, UNSPEC),
            "method": "temperature" if b2 & 0x80 else "percent",
            "percent": b2 & 0x7F,
            "battery_low": bool(b3 & 0x80),
            "turbo_support": bool(b3 & 0x40),
            "setpoint": b3 & 0x3F,
            "sensor": bool(b4 & 0x80),
            "temperature": temp11(b5, b6),
            "spill": bool(b6 & 0x10),
        })
    return out


def write_group_status(groups):
    out = bytearray()
    inv = {v: k for k, v in _GSTATE.items()}
    for g in groups:
        b1 = (inv[g["power"]] << 6) | (g["group"] & 0x3F)
        b2 = (0x80 if g["method"] == "temperature" else 0) | (g["percent"] & 0x7F)
        b3 = (0x80 if g.get("battery_low") else 0) | (0x40 if g.get("turbo_support") else 0) | (g.get("setpoint", 0) & 0x3F)
        b4 = 0x80 if g.get("sensor") else 0
        t = g.get("temperature", ABSENT)
        if t is ABSENT or t is None:
            b5, b6 = 0xFF, 0x00
        else:
            v = int(round(t * 10)) + 500
            b5, b6 = (v >> 3) & 0xFF, (v & 7) << 5
        if g.get("spill"):
            b6 |= 0x10
        out += bytes([b1, b2, b3, b4, b5, b6])
    return bytes(out)


# ----------------------------------------------------------------------------- 0x2C p.10
_APOWER = {0: KEEP, 1: "toggle", 2: "off", 3: "on"}
_MODE_SET = {0: "auto", 1: "heat", 2: "dry", 3: "fan", 4: "cool"}
_FAN_SET = {0: "auto", 1: "quiet", 2: "low", 3: "medium", 4: "high", 5: "powerful", 6: "turbo"}
_SPCTL = {0: KEEP, 1: "set", 2: "dec", 3: "inc"}


def read_ac_control(d: bytes):
    if len(d) != 4:
        raise Malformed("0x2C: 4 bytes data")
    sp = _SPCTL[d[2] >> 6]
    return {"ac": d[0] & 0x3F, "power": _APOWER[d[0] >> 6],
            "mode": _MODE_SET.get(d[1] >> 4, KEEP), "fan": _FAN_SET.get(d[1] & 0xF, KEEP),
            "setpoint_ctl": sp, "setpoint": (d[2] & 0x3F) if sp == "set" else None,
            "setpoint_raw": d[2] & 0x3F, "byte4": d[3]}


# ----------------------------------------------------------------------------- 0x2D p.11
_ASTATE = {0: "off", 1: "on"}
_MODE = {0: "auto", 1: "heat", 2: "dry", 3: "fan", 4: "cool", 8: "auto_heat", 9: "auto_cool"}
_FAN = dict(_FAN_SET)


def read_ac_status(d: bytes):
    if len(d) % 8:
        raise Malformed("0x2D: 8 bytes per AC")
    out = []
    for i in range(0, len(d), 8):
        b = d[i:i + 8]
        out.append({
            "ac": b[0] & 0x3F,
            "power": _ASTATE.get(b[0] >> 6, ABSENT),
            "mode": _MODE.get(b[1] >> 4, ABSENT),
            "fan": _FAN.get(b[1] & 0xF, ABSENT),
            "spill": bool(b[2] & 0x80),
            "timer": bool(b[2] & 0x40),
            "setpoint": b[2] & 0x3F,
            "temperature": temp11(b[4], b[5]),
            "error": (b[6] << 8) | b[7],
        })
    return out


def write_ac_status(acs):
    out = bytearray()
    ip = {v: k for k, v in _ASTATE.items()}
    im = {v: k for k, v in _MODE.items()}
    if_ = {v: k for k, v in _FAN.items()}
    for a in acs:
        b1 = (ip[a["power"]] << 6) | (a["ac"] & 0x3F)
        b2 = (im[a["mode"]] << 4) | if_[a["fan"]]
        b3 = (0x80 if a.get("spill") else 0) | (0x40 if a.get("timer") else 0) | (a.get("setpoint", 0) & 0x3F)
        t = a.get("temperature", ABSENT)
        if t is ABSENT or t is None:
            b5, b6 = 0xFF, 0
        else:
            v = int(round(t * 10)) + 500
            b5, b6 = (v >> 3) & 0xFF, (v & 7) << 5
        e = a.get("error", 0)
        out += bytes([b1, b2, b3, 0, b5, b6, e >> 8, e & 0xFF])
    return bytes(out)


# ----------------------------------------------------------------------------- 0x1F p.12-16
def split_ext(d: bytes):
    if len(d) < 2:
        raise Malformed("0x1F: needs 2 command bytes")
    return (d[0] << 8) | d[1], d[2:]


def cstr(b: bytes):
    return b.split(b"\0", 1)[0]


_MODE_BITS = ["auto", "heat", "dry", "fan", "cool"]                              # bit1..bit5 p.12
_FAN_BITS = ["auto", "quiet", "low", "medium", "high", "powerful", "turbo"]     # bit1..bit7 p.13


def read_ability(p: bytes):
    """FF11 answer (payload after FF 11): per AC [ac, following, name16, start, count, modes, fans, min, max
    (, groups1-8, groups9-16)].  following = 22 or 24."""
    out = []
    i = 0
    if len(p) < 2:
        raise Malformed("FF11: request, not an answer")
    while i < len(p):
        if len(p) - i < 2:
            raise Malformed("FF11: truncated record")
        ac, fl = p[i], p[i + 1]
        if fl not in (22, 24) or len(p) - i - 2 < fl:
            raise Malformed(f"FF11: following length {fl}")
        r = p[i + 2:i + 2 + fl]
        rec = {"ac": ac, "following": fl, "name": cstr(r[0:16]), "start": r[16], "count": r[17],
               "modes": {m for k, m in enumerate(_MODE_BITS) if r[18] >> k & 1},
               "fans": {f for k, f in enumerate(_FAN_BITS) if r[19] >> k & 1},
               "min": r[20], "max": r[21], "groups": None}
        if fl == 24:
            bits = r[22] | (r[23] << 8)        # byte27 = groups 1..8, byte28 = groups 9..16 (p.13)
            rec["groups"] = {g for g in range(16) if bits >> g & 1}   # 0-based group numbers
        out.append(rec)
        i += 2 + fl
    return out


def write_ability(acs):
    out = bytearray()
    for a in acs:
        groups = a.get("groups")
        fl = 24 if groups is not None else 22
        name = a["name"] if isinstance(a["name"], bytes) else a["name"].encode()
        mb = sum(1 << k for k, m in enumerate(_MODE_BITS) if m in a["modes"])
        fb = sum(1 << k for k, f in enumerate(_FAN_BITS) if f in a["fans"])
        out += bytes([a["ac"], fl]) + name[:16].ljust(16, b"\0") + bytes(
            [a.get("start", 0), a.get("count", 0), mb, fb, a["min"], a["max"]])
        if groups is not None:
            bits = sum(1 << g for g in groups)
            out += bytes([bits & 0xFF, bits >> 8])
    return bytes(out)


def read_error(p: bytes):
    """FF10 answer: ac, length, text (length 0 = no error)."""
    if len(p) < 2:
        raise Malformed("FF10: request, not an answer")
    ac, ln = p[0], p[1]
    if len(p) - 2 != ln:
        raise Malformed("FF10: length mismatch")
    return {"ac": ac, "text": p[2:2 + ln] if ln else ABSENT}


def write_error(ac, text: bytes | None):
    text = text or b""
    return bytes([ac, len(text)]) + text


def read_group_names(p: bytes):
    """FF12 answer: per group [number, 8-byte NUL padded name]."""
    if len(p) < 2 or len(p) % 9:
        raise Malformed("FF12: 9 bytes per group")
    return {p[i]: cstr(p[i + 1:i + 9]) for i in range(0, len(p), 9)}


def write_group_names(names: dict):
    out = bytearray()
    for g, n in names.items():
        n = n if isinstance(n, bytes) else n.encode()
        out += bytes([g]) + n[:8].ljust(8, b"\0")
    return bytes(out)


def read_version(p: bytes, sep=b"|"):
    """FF30 answer: update sign (0 = latest), length, versions separated by '|'."""
    if len(p) < 2:
        raise Malformed("FF30: request, not an answer")
    if len(p) - 2 != p[1]:
        raise Malformed("FF30: length mismatch")
    return {"update": p[0] != 0, "versions": p[2:].split(sep)}


def write_version(update: bool, versions, sep=b"|"):
    txt = sep.join(v if isinstance(v, bytes) else v.encode() for v in versions)
    return bytes([1 if update else 0, len(txt)]) + txt


# ----------------------------------------------------------------------------- undocumented
# 0x36 / 0x37 timers and FF20 quick timer: no vendor text.  Layout taken from the literal byte
# vectors of the pinned test-suite (tests/at4/comms/test_x36*, test_x37*, test_x1FFF20*).
def read_timer_slots(d: bytes):
    """4 slots x 8 bytes: on(b1: bit8 disabled, bits5-1 hour; b2 bits6-1 minute), off(same), 4 pad."""
    if len(d) % 8:
        raise Malformed("0x37: 8 bytes per AC")
    out = []
    for n in range(len(d) // 8):
        s = d[n * 8:n * 8 + 8]
        out.append({"ac": n,
                    "on": {"disabled": bool(s[0] & 0x80), "hour": s[0] & 0x1F, "minute": s[1] & 0x3F},
                    "off": {"disabled": bool(s[2] & 0x80), "hour": s[2] & 0x1F, "minute": s[3] & 0x3F}})
    return out


def write_timer_slots(slots: dict, n=4):
    """slots: {ac: {'on': {...}, 'off': {...}}}; absent slots are zero filled."""
    out = bytearray(8 * n)
    for ac, s in slots.items():
        for k, off in (("on", 0), ("off", 2)):
            t = s[k]
            out[ac * 8 + off] = (0x80 if t["disabled"] else 0) | (t["hour"] & 0x1F)
            out[ac * 8 + off + 1] = t["minute"] & 0x3F
    return bytes(out)


def read_quick_timer(p: bytes):
    if len(p) != 4:
        raise Malformed("FF20: 4 bytes")
    return {"ac": p[0], "type": {0: "off", 1: "on"}.get(p[1], UNSPEC), "hours": p[2], "minutes": p[3]}
