"""Reference reading/writing of AirTouch 5 records, from the v1.2 document only.

Citations: spec/airtouch5_v1.2.extract.txt page markers (p.N).  Imports nothing from pyairtouch.
"""
from __future__ import annotations

from .at4 import ABSENT, KEEP, UNSPEC, Malformed, cstr

__all__ = ["ABSENT", "KEEP", "UNSPEC", "Malformed"]


# ----------------------------------------------------------------------------- 0xC0 sub header p.7
def split_c0(d: bytes):
    """-> (subtype, normal, repeat_len, repeat_count, subdata).  data length = 8 + normal + rl*rc."""
    if len(d) < 8:
        raise Malformed("0xC0: 8 byte sub header")
    sub, keep0 = d[0], d[1]
    normal = (d[2] << 8) | d[3]
    rl = (d[4] << 8) | d[5]
    rc = (d[6] << 8) | d[7]
    if len(d) != 8 + normal + rl * rc:
        raise Malformed(f"0xC0: length {len(d)} != 8 + {normal} + {rl}*{rc}")
    return sub, normal, rl, rc, d[8:]


def c0(sub, normal: bytes, records: list[bytes], rl=None):
    if rl is None:
        rl = len(records[0]) if records else 0
    n = len(normal)
    return bytes([sub, 0, n >> 8, n & 0xFF, rl >> 8, rl & 0xFF, len(records) >> 8, len(records) & 0xFF]) \
        + normal + b"".join(records)


def records(normal, rl, rc, sub, need):
    if rl < need and rc:
        raise Malformed(f"repeat length {rl} < {need}")
    body = sub[normal:]
    return [body[i * rl:(i + 1) * rl] for i in range(rc)]


# ----------------------------------------------------------------------------- 0x20 p.8
_ZSET = {2: "dec", 3: "inc", 4: "percent", 5: "setpoint"}
_ZMETHOD = {0: KEEP, 1: "change", 2: "percent", 3: "temperature"}
_ZPOWER = {1: "toggle", 2: "off", 3: "on", 5: "turbo"}


def read_zone_control(normal, rl, rc, sub):
    if rl != 4 and rc:
        raise Malformed("0x20: repeat length 4")
    out = []
    for r in records(normal, rl, rc, sub, 4):
        s = _ZSET.get(r[1] >> 5, KEEP)
        if s == "percent":
            value = r[2]
        elif s == "setpoint":
            value = (r[2] + 100) / 10 if r[2] <= 250 else UNSPEC
        else:
            value = None
        out.append({"zone": r[0] & 0x3F, "byte1_hi": r[0] >> 6, "setting": s, "value": value, "raw_value": r[2],
                    "method": _ZMETHOD[(r[1] >> 3) & 3], "power": _ZPOWER.get(r[1] & 7, KEEP), "byte4": r[3]})
    return out


# ----------------------------------------------------------------------------- 0x21 p.9
_ZSTATE = {0: "off", 1: "on", 3: "turbo"}


def temp_5(hi, lo):
    v = ((hi & 7) << 8) | lo
    return (v - 500) / 10 if v <= 2000 else ABSENT


def read_zone_status(normal, rl, rc, sub):
    out = []
    for r in records(normal, rl, rc, sub, 8):
        out.append({
            "zone": r[0] & 0x3F,
            "power": _ZSTATE.get(r[0] >> 6, UNSPEC),
            "method": "temperature" if r[1] & 0x80 else "percent",
            "percent": r[1] & 0x7F,
            "setpoint": ABSENT if r[2] == 0xFF else (r[2] + 100) / 10,
            "sensor": bool(r[3] & 0x80),
            "temperature": temp_5(r[4], r[5]),
            "spill": bool(r[6] & 0x02),
            "battery_low": bool(r[6] & 0x01),
        })
    return out


def write_zone_status(zones, rl=8):
    inv = {v: k for k, v in _ZSTATE.items()}
    recs = []
    for z in zones:
        b1 = (inv[z["power"]] << 6) | (z["zone"] & 0x3F)
        b2 = (0x80 if z["method"] == "temperature" else 0) | (z["percent"] & 0x7F)
        sp = z.get("setpoint", ABSENT)
        b3 = 0xFF if sp is ABSENT or sp is None else int(round(sp * 10)) - 100
        b4 = 0x80 if z.get("sensor") else 0
        t = z.get("temperature", ABSENT)
        v = 0x7FF if t is ABSENT or t is None else int(round(t * 10)) + 500
        b7 = (2 if z.get("spill") else 0) | (1 if z.get("battery_low") else 0)
        recs.append(bytes([b1, b2, b3, b4, v >> 8, v & 0xFF, b7, 0]) + bytes(rl - 8))
    return c0(0x21, b"", recs, rl=rl if recs else 0)


# ----------------------------------------------------------------------------- 0x22 p.11
_APOWER = {1: "toggle", 2: "off", 3: "on", 4: "away", 5: "sleep"}
_MODE_SET = {0: "auto", 1: "heat", 2: "dry", 3: "fan", 4: "cool"}
_FAN_SET = {0: "auto", 1: "quiet", 2: "low", 3: "medium", 4: "high", 5: "powerful", 6: "turbo",
            8: "intelligent_auto"}


def read_ac_control(normal, rl, rc, sub):
    if rl != 4 and rc:
        raise Malformed("0x22: repeat length 4")
    out = []
    for r in records(normal, rl, rc, sub, 4):
        if r[2] == 0x40:
            ctl, sp = "set", (r[3] + 100) / 10
        elif r[2] == 0x00:
            ctl, sp = KEEP, None
        else:
            ctl, sp = UNSPEC, None       # "Other: invalidate data"
        out.append({"ac": r[0] & 0xF, "power": _APOWER.get(r[0] >> 4, KEEP),
                    "mode": _MODE_SET.get(r[1] >> 4, KEEP), "fan": _FAN_SET.get(r[1] & 0xF, KEEP),
                    "setpoint_ctl": ctl, "setpoint": sp, "setpoint_raw": r[3]})
    return out


# ----------------------------------------------------------------------------- 0x23 p.13
_ASTATE = {0: "off", 1: "on", 2: "away_off", 3: "away_on", 5: "sleep"}
_MODE = {0: "auto", 1: "heat", 2: "dry", 3: "fan", 4: "cool", 8: "auto_heat", 9: "auto_cool"}
_FAN = {0: "auto", 1: "quiet", 2: "low", 3: "medium", 4: "high", 5: "powerful", 6: "turbo",
        9: "ia_quiet", 10: "ia_low", 11: "ia_medium", 12: "ia_high", 13: "ia_powerful", 14: "ia_turbo"}
# 9..14 = "Intelligent Auto" (p.13); the concrete speed = value-8 mapped onto quiet..turbo (DESIGN app. A).


def read_ac_status(normal, rl, rc, sub):
    out = []
    for r in records(normal, rl, rc, sub, 8):
        out.append({
            "ac": r[0] & 0xF,
            "power": _ASTATE.get(r[0] >> 4, ABSENT),
            "mode": _MODE.get(r[1] >> 4, ABSENT),
            "fan": _FAN.get(r[1] & 0xF, ABSENT),
            "setpoint": (r[2] + 100) / 10 if r[2] <= 250 else ABSENT,
            "turbo": bool(r[3] & 8), "bypass": bool(r[3] & 4), "spill": bool(r[3] & 2), "timer": bool(r[3] & 1),
            "temperature": temp_5(r[4], r[5]),
            "error": (r[6] << 8) | r[7],
        })
    return out


def write_ac_status(acs, rl=10):
    ip = {v: k for k, v in _ASTATE.items()}
    im = {v: k for k, v in _MODE.items()}
    if_ = {v: k for k, v in _FAN.items()}
    recs = []
    for a in acs:
        b1 = (ip[a["power"]] << 4) | (a["ac"] & 0xF)
        b2 = (im[a["mode"]] << 4) | if_[a["fan"]]
        sp = a.get("setpoint", ABSENT)
        b3 = 0xFF if sp is ABSENT or sp is None else int(round(sp * 10)) - 100
        b4 = 0xC0 | (8 if a.get("turbo") else 0) | (4 if a.get("bypass") else 0) | (2 if a.get("spill") else 0) | (1 if a.get("timer") else 0)
        t = a.get("temperature", ABSENT)
        v = 0x7FF if t is ABSENT or t is None else int(round(t * 10)) + 500
        e = a.get("error", 0)
        recs.append(bytes([b1, b2, b3, b4, v >> 8, v & 0xFF, e >> 8, e & 0xFF]) + bytes(rl - 8))
    return c0(0x23, b"", recs, rl=rl if recs else 0)


# ----------------------------------------------------------------------------- 0x1F p.15-18
_MODE_BITS = ["auto", "heat", "dry", "fan", "cool"]
_FAN_BITS = ["auto", "quiet", "low", "medium", "high", "powerful", "turbo", "intelligent_auto"]


def read_ability(p: bytes):
    if len(p) < 2:
        raise Malformed("FF11: request, not an answer")
    out = []
    i = 0
    while i < len(p):
        if len(p) - i < 2:
            raise Malformed("FF11: truncated")
        ac, fl = p[i], p[i + 1]
        if fl < 24 or len(p) - i - 2 < fl:
            raise Malformed(f"FF11: following length {fl}")
        r = p[i + 2:i + 2 + fl]
        out.append({"ac": ac, "following": fl, "name": cstr(r[0:16]), "start": r[16], "count": r[17],
                    "modes": {m for k, m in enumerate(_MODE_BITS) if r[18] >> k & 1},
                    "fans": {f for k, f in enumerate(_FAN_BITS) if r[19] >> k & 1},
                    "min_cool": r[20], "max_cool": r[21], "min_heat": r[22], "max_heat": r[23]})
        i += 2 + fl
    return out


def write_ability(acs):
    out = bytearray()
    for a in acs:
        name = a["name"] if isinstance(a["name"], bytes) else a["name"].encode()
        mb = sum(1 << k for k, m in enumerate(_MODE_BITS) if m in a["modes"])
        fb = sum(1 << k for k, f in enumerate(_FAN_BITS) if f in a["fans"])
        out += bytes([a["ac"], 24]) + name[:16].ljust(16, b"\0") + bytes(
            [a.get("start", 0), a.get("count", 0), mb, fb, a["min_cool"], a["max_cool"], a["min_heat"], a["max_heat"]])
    return bytes(out)


def read_zone_names(p: bytes):
    """FF13 answer: per zone [index, name length, name]."""
    if len(p) < 2:
        raise Malformed("FF13: request, not an answer")
    out = {}
    i = 0
    while i < len(p):
        if len(p) - i < 2 or len(p) - i - 2 < p[i + 1]:
            raise Malformed("FF13: truncated")
        out[p[i]] = p[i + 2:i + 2 + p[i + 1]]
        i += 2 + p[i + 1]
    return out


def write_zone_names(names: dict):
    out = bytearray()
    for z, n in names.items():
        n = n if isinstance(n, bytes) else n.encode()
        out += bytes([z, len(n)]) + n
    return bytes(out)


# ----------------------------------------------------------------------------- undocumented
# 0xC0/0x32, 0x33 timers, FF49 quick timer: layout from the pinned test vectors
# (tests/at5/comms/test_xC032*, test_xC033*, test_x1FFF49*).
def read_timer_records(normal, rl, rc, sub):
    out = []
    for r in records(normal, rl, rc, sub, 9):
        out.append({"ac": r[0],
                    "on": {"disabled": bool(r[1] & 0x80), "hour": r[1] & 0x1F, "minute": r[2] & 0x3F},
                    "off": {"disabled": bool(r[3] & 0x80), "hour": r[3] & 0x1F, "minute": r[4] & 0x3F}})
    return out


def write_timer_records(sub, timers, rl=9):
    recs = []
    for t in timers:
        b = bytearray(rl)
        b[0] = t["ac"]
        for k, off in (("on", 1), ("off", 3)):
            s = t[k]
            b[off] = (0x80 if s["disabled"] else 0) | (s["hour"] & 0x1F)
            b[off + 1] = s["minute"] & 0x3F
        recs.append(bytes(b))
    return c0(sub, b"", recs, rl=rl if recs else 0)
