"""Replay one recorded violation without the explorer, twice, and compare observations."""
from __future__ import annotations

import importlib
import json
import logging
import sys
import warnings


def main(path):
    logging.disable(logging.CRITICAL)
    warnings.simplefilter("ignore")
    with open(path) as f:
        rec = json.load(f)
    rp = rec["replay"]
    print(f"property={rec['property']} signature={rec['signature']}")
    print(f"recorded: {rec['message']}")
    if rp is None:
        print("no replay data recorded")
        return 2
    if rp["kind"] == "explorer":
        from pvmc import explorer
        logs = []
        verdicts = []
        for _ in range(2):
            w, v, idx = explorer.replay(rp["spec"], rp["params"], rp["path"])
            if v is None and w.quiescent():
                v = w.finish()
            logs.append(w.render_log())
            verdicts.append(v)
        if logs[0] != logs[1]:
            print("HARNESS-ERROR: replay is not deterministic")
            return 2
        for line in logs[0]:
            print("  ", line)
        print("choice string:", json.dumps(rp["path"]))
        if verdicts[0]:
            print("REPRODUCED:", verdicts[0].get("clause"), "-", verdicts[0].get("message"))
            return 1
        print("not reproduced (property holds on this execution)")
        return 0
    if rp["kind"] == "input":
        mod = importlib.import_module(rp["module"])
        msg = mod.replay_input(rp)
        if msg:
            print("REPRODUCED:", msg)
            return 1
        print("not reproduced (property holds on this input)")
        return 0
    print("unknown replay kind")
    return 2


if __name__ == "__main__":
    sys.exit(main(sys.argv[1]))
