"""Shared world-building helpers for scenarios: fresh loop + net + real library objects."""
from __future__ import annotations

import asyncio
import gc
import inspect
import logging
import warnings
from asyncio import events, exceptions, futures, coroutines

from . import fingerprint as fpmod
from . import simnet, vloop

logging.disable(logging.CRITICAL)
warnings.simplefilter("ignore")

_ORIG_AS_COMPLETED = asyncio.as_completed


def _key(f):
    q = getattr(f, "__qualname__", None) or type(f).__name__
    tag = ""
    fr = getattr(f, "cr_frame", None)
    if fr is not None:
        s = fr.f_locals.get("self")
        tag = getattr(s, "_pv_tag", "") or ""
    return (q, str(tag))


def canonical_as_completed(fs, *, timeout=None):
    """asyncio.as_completed with a canonical task-creation order (DESIGN §2.3).

    The stdlib version builds a *set* of the awaitables, so the order in which the
    subscriber tasks are created depends on object addresses.  Semantics are otherwise
    those of CPython 3.12's function.
    """
    if futures.isfuture(fs) or coroutines.iscoroutine(fs):
        raise TypeError(f"expect an iterable of futures, not {type(fs).__name__}")
    from asyncio.queues import Queue
    done = Queue()
    loop = events.get_event_loop()
    ordered = sorted(set(fs), key=_key)
    todo_list = [asyncio.ensure_future(f, loop=loop) for f in ordered]
    todo = set(todo_list)
    timeout_handle = None

    def _on_timeout():
        for f in todo_list:
            if f in todo:
                f.remove_done_callback(_on_completion)
                done.put_nowait(None)
        todo.clear()

    def _on_completion(f):
        if not todo:
            return
        todo.remove(f)
        done.put_nowait(f)
        if not todo and timeout_handle is not None:
            timeout_handle.cancel()

    async def _wait_for_one():
        f = await done.get()
        if f is None:
            raise exceptions.TimeoutError
        return f.result()

    for f in todo_list:
        f.add_done_callback(_on_completion)
    if todo and timeout is not None:
        timeout_handle = loop.call_later(timeout, _on_timeout)
    for _ in range(len(todo_list)):
        yield _wait_for_one()


def patch_as_completed():
    import asyncio.tasks as _t
    asyncio.as_completed = canonical_as_completed
    _t.as_completed = canonical_as_completed


patch_as_completed()


def registry(gen):
    if gen == 4:
        import pyairtouch.at4.comms.registry as r
    else:
        import pyairtouch.at5.comms.registry as r
    return r.INSTANCE


def fresh_registry(gen):
    """Reset per-process mutable state of the module level registry: the packet counter."""
    reg = registry(gen)
    reg.header_factory = type(reg.header_factory)()
    return reg


_BACKGROUND_DEATHS = []
_WATCH = []


def _install_death_watch():
    """Once per process: let ERROR records of the library through (everything below stays disabled) and keep the ones
    that say a background task died of an unhandled exception."""
    if _WATCH:
        return
    import logging

    class _H(logging.Handler):
        def emit(self, record):
            try:
                if str(record.msg).startswith("Unhandled exception in background task"):
                    ei = record.exc_info
                    _BACKGROUND_DEATHS.append(f"background task died: {type(ei[1]).__name__ if ei and ei[1] else ei}: {ei[1] if ei else ''}"[:200])
            except Exception:  # noqa: BLE001
                pass
    h = _H(level=logging.ERROR)
    lg = logging.getLogger("pyairtouch")
    lg.addHandler(h)
    lg.propagate = False
    if logging.root.manager.disable >= logging.ERROR:
        logging.disable(logging.WARNING)
    _WATCH.append(h)


class World:
    """Base class: fresh VLoop + Net; subclasses build the objects under test."""

    _created = 0

    def __init__(self):
        # the cyclic collector is switched off in worker processes (explorer._init_worker); worlds are full of
        # cycles (loop <-> tasks <-> frames), so collect by hand now and then or long enumerations eat the machine
        World._created += 1
        _install_death_watch()
        self._deaths0 = len(_BACKGROUND_DEATHS)
        if World._created % 1000 == 0:
            import gc
            gc.collect()
        self.loop = vloop.VLoop()
        vloop.install(self.loop)
        self.net = simnet.Net(self.loop)
        self.obs = []          # harness-level observations (time, kind, ...)
        self.roots = []        # fingerprint roots

    def note(self, kind, *rest):
        self.obs.append((self.loop.time(), kind) + rest)

    def quiescent(self):
        return not self.loop.has_ready()

    def spawn(self, coro, name=None):
        t = self.loop.create_task(coro)
        return t

    def fp_extra(self):
        return ()

    def fingerprint(self):
        d, _ = fpmod.fingerprint(self.loop, self.roots, extra=self.fp_extra())
        return d

    def fingerprint_parts(self):
        return fpmod.fingerprint(self.loop, self.roots, extra=self.fp_extra())[1]

    def render_log(self):
        def fmt(e):
            parts = []
            for x in e[2:]:
                parts.append(x.hex() if isinstance(x, (bytes, bytearray)) else repr(x))
            return f"t={e[0]:.6f} {e[1]} " + " ".join(parts)
        merged = list(self.net.log) + list(self.obs)
        # stable sort: insertion order is kept within each list, lists are interleaved by time
        return [fmt(e) for e in sorted(merged, key=lambda x: x[0])]

    def loop_reports(self):
        gc.collect(1)        # young generations: finalises this world's abandoned tasks ("exception never retrieved")
        # plus what the library itself reports about its background tasks: AirTouchSocket retrieves the exception of a
        # task that died and logs it as an error ("Unhandled exception in background task.") - same thing, other channel
        died = [r for r in _BACKGROUND_DEATHS[self._deaths0:]]
        return list(self.loop.exc_reports) + died


def net_state(net):
    """The part of the simulated network that belongs to the *state* (not the history)."""
    return (
        tuple((t.cid, t._closing, t.lost, t.fail_after, t.paused, t.eof_from_peer, t.closed_by, t.buffered, t.linger,
               # what a stalled stream still owes its peer (contents, not positions in the log)
               tuple(bytes(ref) for (_li, _off, ref) in t._held), tuple(net.log[li][3] for li in t._undelivered))
              for t in net.conns if not t.lost),
        len(net.pending), net.auto,
    )


class debug_logging:
    """Context manager: the application has switched the library's loggers to DEBUG (into a handler that discards).
    Log level is configuration like any other: no reading, frame or decision may depend on it."""

    def __enter__(self):
        import logging
        self._prev_disable = logging.root.manager.disable
        logging.disable(logging.NOTSET)
        self._lg = logging.getLogger("pyairtouch")
        self._prev_level = self._lg.level
        self._prev_prop = self._lg.propagate
        self._h = logging.NullHandler()
        self._lg.addHandler(self._h)
        self._lg.setLevel(logging.DEBUG)
        self._lg.propagate = False
        return self

    def __exit__(self, *exc):
        import logging
        self._lg.removeHandler(self._h)
        self._lg.setLevel(self._prev_level)
        self._lg.propagate = self._prev_prop
        logging.disable(self._prev_disable)
        return False
