"""Canonical state fingerprints (DESIGN §3.4).

A structural walk from given roots through ``__dict__``s, dataclasses, enums and
containers.  Tasks are rendered as the chain of (code qualname, f_lasti,
canonical f_locals) along cr_await / gi_yieldfrom; timers as (deadline - now,
callback tag); object identities as first-visit numbers; absolute times as
relative times.  Observation logs are *not* part of the state.
"""
from __future__ import annotations

import asyncio
import collections
import dataclasses
import enum
import hashlib
import inspect
import logging
import types
import weakref

_TIME_ATTRS = {"expiry", "_when", "when", "deadline", "opened_at", "t"}
_SKIP_ATTRS = {"_loop", "loop", "net", "_source_traceback", "_log_traceback",
               "_log_destroy_pending", "log", "_mismatch_logged", "written", "_held", "_undelivered"}


class Canon:
    def __init__(self, now, skip_types=()):
        self.now = now
        self.ids = {}
        self.skip_types = tuple(skip_types)

    def _ref(self, o):
        k = id(o)
        if k in self.ids:
            return ("ref", self.ids[k])
        self.ids[k] = len(self.ids)
        return None

    def iso(self, o, depth):
        """Canonical repr of ``o`` that neither sees nor leaves identity numbers (for unordered
        containers, whose iteration order is address based)."""
        saved = dict(self.ids)
        try:
            return repr(self.c(o, depth))
        finally:
            self.ids = saved

    def rel(self, t):
        return ("t", round(t - self.now, 6))

    def c(self, o, depth=0, attr=None):  # noqa: C901, PLR0911, PLR0912
        if o is None or isinstance(o, (bool, int, str, bytes)):
            return o
        if isinstance(o, float):
            if attr in _TIME_ATTRS:
                return self.rel(o)
            return o
        if isinstance(o, enum.Enum):
            return ("E", type(o).__name__, o.name)
        if isinstance(o, (bytearray, memoryview)):
            return bytes(o)
        if depth > 14:
            return ("deep", type(o).__name__)
        if isinstance(o, (asyncio.AbstractEventLoop, type, types.ModuleType, weakref.ref,
                          logging.Logger, types.FrameType, types.CodeType)):
            return ("opaque", type(o).__name__)
        if self.skip_types and isinstance(o, self.skip_types):
            return ("skip", type(o).__name__)
        if isinstance(o, (types.FunctionType, types.MethodType, types.BuiltinFunctionType,
                          types.BuiltinMethodType, types.MethodWrapperType)):
            owner = getattr(o, "__self__", None)
            tag = getattr(o, "_pv_tag", None) or getattr(getattr(o, "__func__", None), "_pv_tag", None)
            return ("fn", getattr(o, "__qualname__", "?"), type(owner).__name__ if owner is not None else None, tag)
        if dataclasses.is_dataclass(o) and type(o).__module__.startswith("pyairtouch."):
            # plain protocol data (messages, headers, status records): the dataclass repr is complete
            if hasattr(o, "expiry") and hasattr(o, "retries_remaining"):
                rq = ("Q", repr(o.header), repr(o.message), o.retries_remaining, self.rel(o.expiry))
                if " at 0x" not in rq[2]:
                    return rq
            elif hasattr(o, "expiry"):
                # a queue entry of another shape (a changed tree): generic walk, time fields relative
                return ("Q*",) + tuple((f.name, self.rel(getattr(o, f.name)) if f.name in _TIME_ATTRS and isinstance(getattr(o, f.name), (int, float))
                                        else self.c(getattr(o, f.name), depth + 1)) for f in dataclasses.fields(o))
            else:
                rd = repr(o)
                if " at 0x" not in rd:          # a field with a default (address based) repr: walk it instead
                    return ("D", rd)
        r = self._ref(o)
        if r:
            return r
        if isinstance(o, asyncio.Task):
            if o.done():
                return ("Task", "done", o.cancelled())
            return ("Task", self.chain(o.get_coro(), depth), bool(getattr(o, "_must_cancel", False)),
                    o.cancelling())
        if isinstance(o, asyncio.Future):
            st = o._state
            res = None
            if st == "FINISHED":
                ex = o._exception
                res = ("exc", type(ex).__name__) if ex is not None else self.c(o._result, depth + 1)
            return ("Fut", st, res, len(o._callbacks or ()))
        if isinstance(o, asyncio.Handle):
            return self.handle(o, depth)
        if isinstance(o, (list, tuple, collections.deque)):
            if o and all(inspect.iscoroutine(x) for x in o):
                # a batch of subscriber coroutines built by iterating a set: its order is address based
                # and irrelevant (canonical_as_completed re-orders it)
                return (type(o).__name__, "coros") + tuple(sorted(self.iso(x, depth + 1) for x in o))
            return (type(o).__name__,) + tuple(self.c(x, depth + 1) for x in o)
        if isinstance(o, (set, frozenset)):
            return ("set",) + tuple(sorted(self.iso(x, depth + 1) for x in o))
        if isinstance(o, dict):
            return ("dict",) + tuple(sorted(
                ((repr(self.c(k, depth + 1)), self.c(v, depth + 1, attr=k if isinstance(k, str) else None))
                 for k, v in o.items()), key=lambda kv: kv[0]))
        if isinstance(o, asyncio.Event):
            return ("Event", o.is_set(), len(o._waiters))
        if inspect.iscoroutine(o) or inspect.isgenerator(o):
            return ("coro", self.chain(o, depth))
        if type(o).__name__ == "MessageRegistry":
            hf = getattr(o, "header_factory", None)
            return ("Registry", self.c(getattr(hf, "__dict__", None), depth + 1))
        if isinstance(o, BaseException):
            return ("exc", type(o).__name__, str(o))
        d = getattr(o, "__dict__", None)
        if d is not None:
            return (type(o).__name__,) + tuple(
                (k, self.c(v, depth + 1, attr=k)) for k, v in sorted(d.items()) if k not in _SKIP_ATTRS)
        slots = getattr(type(o), "__slots__", None)
        if slots:
            return (type(o).__name__,) + tuple(
                (k, self.c(getattr(o, k, None), depth + 1, attr=k)) for k in slots
                if k not in _SKIP_ATTRS and not k.startswith("__"))
        return ("obj", type(o).__name__)

    def handle(self, h, depth):
        cb = h._callback
        tag = getattr(cb, "__qualname__", type(cb).__name__)
        owner = getattr(cb, "__self__", None)
        when = getattr(h, "_when", None)
        args = h._args or ()
        # Arguments matter (e.g. which data a peer handle carries, which future a wakeup targets).
        cargs = tuple(self.c(a, depth + 2) for a in args)
        o = None
        if isinstance(owner, asyncio.Task):
            o = self.c(owner, depth + 1)
        elif owner is not None:
            o = type(owner).__name__
        return ("H", tag, o, None if when is None else self.rel(when), cargs)

    def chain(self, coro, depth):
        out = []
        n = 0
        while coro is not None and n < 60:
            n += 1
            if inspect.iscoroutine(coro):
                fr, code, nxt = coro.cr_frame, coro.cr_code, coro.cr_await
            elif inspect.isgenerator(coro):
                fr, code, nxt = coro.gi_frame, coro.gi_code, coro.gi_yieldfrom
            elif inspect.isasyncgen(coro):
                out.append(("asyncgen",))
                break
            else:
                out.append(("await", self.c(coro, depth + 1)))
                break
            loc = ()
            if fr is not None:
                loc = tuple(sorted(
                    (k, repr(("taskref",) if isinstance(v, asyncio.Task) else self.c(v, depth + 2, attr=k)))
                    for k, v in fr.f_locals.items() if k != "self"))
                # (a Task held in a local - e.g. a leftover loop variable over a *set* of tasks - is
                # rendered without identity: which element a set iteration visited last is address based)
            out.append((code.co_qualname, fr.f_lasti if fr else -1, loc))
            coro = nxt
        return tuple(out)


def fingerprint(loop, roots, extra=(), skip_types=()):
    """Return (digest, parts) for the loop state reachable from ``roots``."""
    cn = Canon(loop.time(), skip_types)
    parts = [cn.c(r) for r in roots]
    parts.append(("extra", cn.c(extra)))
    loop.due()
    parts.append(("ready", tuple(cn.c(h) for h in loop._ready if not h._cancelled)))
    parts.append(("sched", tuple(sorted(cn.iso(h, 0) for h in loop._scheduled if not h._cancelled))))
    parts.append(("tasks", tuple(sorted(cn.iso(t, 0) for t in asyncio.all_tasks(loop)))))
    blob = repr(parts).encode()
    return hashlib.blake2b(blob, digest_size=12).hexdigest(), parts
