"""Per-check bookkeeping: collects coverage, violations, known findings; writes evidence."""
from __future__ import annotations

import collections
import fnmatch
import hashlib
import json
import os
import time

ROOT = os.path.dirname(os.path.dirname(os.path.abspath(__file__)))
# VERIF_OUT redirects evidence/replays (used only by the mutant runner, so that runs against a
# scratch copy of the repository never overwrite the evidence of the real tree)
_OUT = os.environ.get("VERIF_OUT") or ROOT
EVIDENCE_DIR = os.path.join(_OUT, "evidence")
REPLAY_DIR = os.path.join(_OUT, "replays")
KNOWN_FILE = os.path.join(ROOT, "known_findings.json")


def _jsonable(o):
    if isinstance(o, (bytes, bytearray)):
        return {"hex": bytes(o).hex()}
    if isinstance(o, (list, tuple)):
        return [_jsonable(x) for x in o]
    if isinstance(o, dict):
        return {str(k): _jsonable(v) for k, v in o.items()}
    if isinstance(o, (str, int, float, bool)) or o is None:
        return o
    if isinstance(o, (set, frozenset)):
        return sorted(_jsonable(x) for x in o)
    return repr(o)


def load_known():
    if not os.path.exists(KNOWN_FILE):
        return []
    with open(KNOWN_FILE) as f:
        return json.load(f).get("findings", [])


class Check:
    def __init__(self, pid, tier, seed, level):
        self.pid = pid
        self.tier = tier
        self.seed = seed
        self.level = level
        self.t0 = time.time()
        self.violations = {}            # signature -> record
        self.known_matched = {}
        self.cov = collections.OrderedDict()
        self.counters = collections.Counter()
        self.samples = []
        self.assumptions = []
        self.trusted_base = []
        self.caps_hit = []
        self.parts = []                 # per-scenario coverage rows
        self.outcomes = collections.Counter()
        self.notes = []
        self._known = [k for k in load_known() if k.get("property") == pid and k.get("status") == "known"]

    # -- violations ------------------------------------------------------------------------
    def violation(self, signature, message, replay=None):
        """Record a violation.  ``signature`` identifies the failing input/call site/history
        class; known findings are matched against it (fnmatch patterns)."""
        for k in self._known:
            if fnmatch.fnmatchcase(signature, k["signature"]):
                self.known_matched.setdefault(k["signature"], {"finding": k, "count": 0, "example": signature})
                self.known_matched[k["signature"]]["count"] += 1
                return False
        if signature not in self.violations:
            self.violations[signature] = {"signature": signature, "message": message,
                                          "replay": replay, "count": 0}
        self.violations[signature]["count"] += 1
        return True

    def add_explorer(self, label, spec, params, res, bounds):
        """Fold an explorer Result in; returns number of new violations."""
        self.counters["states"] += res.states
        self.counters["transitions"] += res.transitions
        self.counters["executions"] += res.executions
        self.counters["quiescent_states"] += res.quiescent_states
        self.cov["max_depth"] = max(self.cov.get("max_depth", 0), res.max_path)
        self.outcomes.update(res.outcomes)
        self.caps_hit += res.caps_hit
        row = {"scenario": label, "bounds": bounds, "states": res.states, "transitions": res.transitions,
               "executions": res.executions, "levels": res.levels, "complete": res.complete,
               "fixpoint": res.fixpoint, "distinct_outcomes": len(res.outcomes),
               "action_kinds": dict(res.kinds), "wall_s": round(res.wall, 2)}
        self.parts.append(row)
        for s in res.samples:
            if len(self.samples) < 6:
                self.samples.append({"scenario": label, "choice_string": _jsonable(s)})
        n = 0
        for sig, (path, v) in res.violations.items():
            rp = {"kind": "explorer", "spec": spec, "params": params, "path": _jsonable(list(path)),
                  "violation": _jsonable(v)}
            if self.violation(f"{label}:{sig}", v.get("message", ""), rp):
                n += 1
        return n

    def add_audit(self, spec, params, depth, dev, limit=4000):
        """Audit mode (DESIGN §3.4): no de-duplication; states with equal fingerprints must have equal
        successors and equal oracle verdicts.  A mismatch is a harness error, never a verdict."""
        from . import explorer
        if self.violations:
            # a violation has already been found (and is replayable on its own): the audit guards the soundness of a
            # verdict of silence, it has nothing to add here and must not turn a verdict into a harness error
            self.cov.setdefault("audit", []).append({"spec": spec, "params": params, "skipped": "violations already found"})
            return
        classes, pairs, mism = explorer.audit(spec, params, depth, dev, limit=limit)
        a = self.cov.setdefault("audit", [])
        a.append({"spec": spec, "params": params, "depth": depth, "deviations": dev, "classes": classes,
                  "pairs_compared": pairs, "mismatches": len(mism)})
        if mism:
            raise explorer.HarnessError(f"fingerprint audit mismatch in {spec} {params}: {mism[:1]}")

    # -- output ----------------------------------------------------------------------------
    def _write_replay(self, rec):
        os.makedirs(REPLAY_DIR, exist_ok=True)
        body = {"property": self.pid, "signature": rec["signature"], "message": rec["message"],
                "replay": rec["replay"]}
        blob = json.dumps(_jsonable(body), indent=1, sort_keys=True)
        h = hashlib.blake2b(rec["signature"].encode(), digest_size=5).hexdigest()
        path = os.path.join(REPLAY_DIR, f"{self.pid}-{h}.json")
        with open(path, "w") as f:
            f.write(blob)
        if rec["replay"] and rec["replay"].get("kind") == "explorer":
            py = path[:-5] + ".py"
            with open(py, "w") as f:
                f.write(_STANDALONE.format(root=ROOT, path=path))
        return path

    def finish(self, coverage_extra=None):
        wall = time.time() - self.t0
        cov = dict(self.cov)
        cov.update({k: v for k, v in self.counters.items()})
        if self.level == "model_checking":
            cov.setdefault("states", 0)
            cov.setdefault("transitions", 0)
            cov["traces_validated_against_impl"] = cov.get("executions", 0)
        cov["samples"] = _jsonable(self.samples[:8]) or ["<none>"]
        cov["trusted_base"] = self.trusted_base
        cov["caps_hit"] = self.caps_hit
        cov["distinct_outcomes"] = len(self.outcomes)
        if self.parts:
            cov["scenarios"] = self.parts
        cov["known_findings_matched"] = [
            {"signature": s, "count": r["count"], "example": r["example"]} for s, r in self.known_matched.items()]
        if self.notes:
            cov["notes"] = self.notes
        if coverage_extra:
            cov.update(coverage_extra)
        ev = {"property_id": self.pid, "tier": self.tier, "seed": self.seed, "level": self.level,
              "coverage": _jsonable(cov), "assumptions": self.assumptions, "wall_s": round(wall, 2),
              "violations": len(self.violations)}
        os.makedirs(EVIDENCE_DIR, exist_ok=True)
        with open(os.path.join(EVIDENCE_DIR, f"{self.pid}.json"), "w") as f:
            json.dump(ev, f, indent=1, sort_keys=True)
        for s, r in self.known_matched.items():
            print(f"KNOWN-FINDING: property={self.pid} {r['finding'].get('what', s)} "
                  f"[signature {s}; {r['count']} case(s) this run]")
        if self.violations:
            for sig, rec in sorted(self.violations.items()):
                path = self._write_replay(rec)
                print(f"  violation: {sig}: {rec['message']} (x{rec['count']})")
                print(f"VIOLATION property={self.pid} replay={path}")
            return 1
        print(f"OK property={self.pid} tier={self.tier} seed={self.seed} wall={wall:.1f}s "
              + " ".join(f"{k}={v}" for k, v in self.counters.items()))
        return 0


_STANDALONE = '''#!/venv/bin/python
"""Stand-alone replay of one violating execution (no explorer involved)."""
import json, sys
sys.path.insert(0, {root!r})
from pvmc import replaytool
sys.exit(replaytool.main({path!r}))
'''
